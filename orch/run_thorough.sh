#!/bin/bash
# Runs every check's thorough tier once, sequentially, printing exit code and wall time (used to fit the bounds).
cd "$(dirname "$0")/.."
./setup.sh >/dev/null 2>&1
for p in ${@:-C01 C02 C03 C04 C05 C06 C07 C08 C09 C10 C11 C12 C13 C14 C15 C16 C17 C18 C19 C20 C21 C22}; do
  s=$(date +%s); VERIF_EVIDENCE_DIR=$PWD/.build/evidence-thorough ./check $p --tier thorough > .build/thorough-$p.txt 2>&1; rc=$?; e=$(date +%s)
  echo "$p rc=$rc $((e-s))s known=$(grep -c '^KNOWN' .build/thorough-$p.txt) $(grep '^VIOL\|^INFRA' .build/thorough-$p.txt | head -2 | tr '\n' ' ' | cut -c1-300)"
done
