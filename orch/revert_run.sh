#!/bin/bash
# revert_run.sh <sha> <check-id> [tier]: run a check against a scratch worktree of /repo with fix commit <sha> reverted.
set -u
SHA=$1; CID=$2; TIER=${3:-quick}
WT=$(mktemp -d /tmp/revrun-XXXXXX); rmdir $WT
git -C /repo worktree add -q --detach $WT HEAD || exit 2
( cd $WT && git revert --no-commit $SHA >/dev/null 2>&1 ) || { echo "revert of $SHA does not apply cleanly"; git -C /repo worktree remove --force $WT; exit 2; }
VERIF_REPO=$WT VERIF_BUILD=$WT/.vbuild VERIF_EVIDENCE_DIR=$WT/.vbuild/evidence /verif/check $CID --tier $TIER > $WT/.out 2>&1; RC=$?
echo "reverted=$SHA check=$CID tier=$TIER rc=$RC"; grep -a "^VIOLATION\|^INFRA" $WT/.out | cut -c1-300 | head -3
git -C /repo worktree remove --force $WT
exit $RC
