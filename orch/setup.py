"""MANIFEST.setup_cmd: build the harness offline from files on disk and check the tools."""
import os, subprocess, sys
sys.path.insert(0, os.path.dirname(os.path.abspath(__file__)))
import core
try:
    core.build()
except core.Infra as e:
    sys.stderr.write(str(e) + "\n")
    sys.exit(1)
p = subprocess.run(["java", "-cp", core.TLA_CP, "tlc2.TLC", "-h"], capture_output=True, text=True)
if "TLC" not in (p.stdout + p.stderr):
    sys.stderr.write("TLC not runnable\n")
    sys.exit(1)
print("setup ok")
