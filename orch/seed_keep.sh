#!/bin/bash
# seed_keep.sh <PID> <worktree> [name]: confirm a seeded change (suite passes with it, demo fails with it and
# passes without it) and store it as /verif/seeded/<name>/{patch.diff,demo,meta.json,SEEDED.md}
set -u
PID=$1; WT=$2; NAME=${3:-$PID}
export GOFLAGS=-mod=mod GOPROXY=off GOSUMDB=off GOTOOLCHAIN=local
cd "$WT" || exit 2
DEMO=$(git ls-files --others --exclude-standard | grep 'seeded_demo_test.go$' | head -1)
[ -n "$DEMO" ] || { echo "no demo file"; exit 2; }
PKG=./$(dirname "$DEMO")
git diff > /tmp/seed-$NAME.diff
[ -s /tmp/seed-$NAME.diff ] || { echo "empty diff"; exit 2; }
mv "$DEMO" /tmp/seed-$NAME-demo.go
echo "== suite with change"; go build ./... && go test -vet=off -count=1 ./... 2>&1 | grep -v "no test files" ; S=${PIPESTATUS[0]}
cp /tmp/seed-$NAME-demo.go "$DEMO"
echo "== demo with change"; go test -vet=off -count=1 -run 'TestSeededDemo$' $PKG > /tmp/seed-$NAME-with.txt 2>&1; W=$?; tail -5 /tmp/seed-$NAME-with.txt
git apply -R /tmp/seed-$NAME.diff
echo "== demo without change"; go test -vet=off -count=1 -run 'TestSeededDemo$' $PKG > /tmp/seed-$NAME-without.txt 2>&1; WO=$?; tail -3 /tmp/seed-$NAME-without.txt
git apply /tmp/seed-$NAME.diff
echo "suite=$S demo_with=$W demo_without=$WO"
if [ $S -eq 0 ] && [ $W -ne 0 ] && [ $WO -eq 0 ]; then
  D=/verif/seeded/$NAME; mkdir -p $D
  cp /tmp/seed-$NAME.diff $D/patch.diff; cp /tmp/seed-$NAME-demo.go $D/$(basename $DEMO); [ -f SEEDED.md ] && cp SEEDED.md $D/SEEDED.md
  python3 - "$PID" "$NAME" "$DEMO" <<'P'
import json, sys, subprocess
pid, name, demo = sys.argv[1:4]
d = '/verif/seeded/' + name
try: needs = open(d + '/SEEDED.md').read()
except Exception: needs = ''
base = subprocess.run(['git','rev-parse','--short','HEAD'],capture_output=True,text=True).stdout.strip()
json.dump({"property": pid, "base_commit": base, "demo": demo, "origin": "independent sub-agent given only the property text and a scratch worktree",
  "needs_to_manifest": needs[:3000],
  "confirmed": {"existing_suite_with_change": "go test -vet=off -count=1 ./... : ok", "demo_with_change": "FAIL (go test -run TestSeededDemo)", "demo_without_change": "ok"},
  "detected_by": []}, open(d + '/meta.json', 'w'), indent=1)
P
  echo "KEPT $D"
else echo "REJECTED"; fi
rm -f /tmp/seed-$NAME*.txt /tmp/seed-$NAME.diff /tmp/seed-$NAME-demo.go
