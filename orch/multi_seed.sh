#!/bin/bash
# multi_seed.sh <seed> ...: every check's quick tier with each of the given seeds, sequentially; prints exit code and wall
# time per run (used to look for rare alarms on the unchanged tree and to measure the quick tiers).
cd "$(dirname "$0")/.."
./setup.sh >/dev/null 2>&1
for s in "$@"; do
  for p in C01 C02 C03 C04 C05 C06 C07 C08 C09 C10 C11 C12 C13 C14 C15 C16 C17 C18 C19 C20 C21 C22; do
    b=$(date +%s); VERIF_SEED=$s VERIF_EVIDENCE_DIR=$PWD/.build/evidence-ms ./check $p --tier quick --seed $s > .build/ms-$p-$s.txt 2>&1; rc=$?; e=$(date +%s)
    echo "seed=$s $p rc=$rc $((e-b))s known=$(grep -c '^KNOWN' .build/ms-$p-$s.txt) $(grep '^VIOL\|^INFRA' .build/ms-$p-$s.txt | head -2 | tr '\n' ' ' | cut -c1-300)"
  done
done
