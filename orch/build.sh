#!/bin/sh
# Rebuild the harness against $VERIF_REPO (default /repo) with -tags verif.
set -e
V=$(cd "$(dirname "$0")/.." && pwd)
REPO=${VERIF_REPO:-/repo}
export GOFLAGS=-mod=mod GOPROXY=off GOSUMDB=off GOTOOLCHAIN=local
B=${VERIF_BUILD:-$V/.build}
# VERIF_BUILD_ID: private source copy and binaries per check process, so that
# checks running at the same time do not build over each other
S=${VERIF_BUILD_ID:+.$VERIF_BUILD_ID}
mkdir -p "$B/bin$S"
rm -rf "$B/harness$S"
cp -r "$V/harness" "$B/harness$S"
cd "$B/harness$S"
sed "s#@REPO@#$REPO#" go.mod.tmpl > go.mod
cp "$REPO/go.sum" .
go build -tags verif -o "$B/bin$S/" ./cmd/...
# race-instrumented driver for the concurrent families (C14, C17, C18)
go build -race -tags verif -o "$B/bin$S/drive-race" ./cmd/drive

