#!/bin/sh
# Rebuild the harness against $VERIF_REPO (default /repo) with -tags verif.
set -e
V=$(cd "$(dirname "$0")/.." && pwd)
REPO=${VERIF_REPO:-/repo}
export GOFLAGS=-mod=mod GOPROXY=off GOSUMDB=off GOTOOLCHAIN=local
B=${VERIF_BUILD:-$V/.build}
mkdir -p "$B/bin"
rm -rf "$B/harness"
cp -r "$V/harness" "$B/harness"
cd "$B/harness"
sed "s#@REPO@#$REPO#" go.mod.tmpl > go.mod
cp "$REPO/go.sum" .
go build -tags verif -o "$B/bin/" ./cmd/...
# race-instrumented driver for the concurrent families (C14, C17, C18)
go build -race -tags verif -o "$B/bin/drive-race" ./cmd/drive

