"""Writes the prompt given to an independent sub-agent that seeds a bug for one property
(the agent sees only the property text and its own scratch worktree)."""
import json, sys, os
V = os.path.dirname(os.path.dirname(os.path.abspath(__file__)))
T = '''You are helping test a verification framework by seeding a realistic bug. You work ONLY inside the git worktree {wt} (a checkout of the Go project xujiajun/nutsdb, an embeddable Bitcask-style key/value store). Do NOT look at or touch /verif or /repo. No network is available. Use: export GOFLAGS=-mod=mod GOPROXY=off GOSUMDB=off GOTOOLCHAIN=local before any go command.

The property to break ({pid} - {title}):
"{stmt}"
Scope of the quantifier: {q}
{extra}
Task: make a small, realistic change to the library's non-test Go source in {wt} (the kind of mistake a developer could plausibly make in a refactor or optimisation) that BREAKS this property while (a) the project still compiles, and (b) the existing test suite still passes: `cd {wt} && go test -vet=off -count=1 ./...` must be all ok. The bug must NOT be exposed by ordinary trivial use: it should need something specific to manifest - e.g. a particular multi-step sequence of operations, an unusual input (boundary index, empty value, specific key shape), a crash or fault at a particular point, a particular segment-size/rotation situation, a particular interleaving, or two cooperating sites that each look fine alone. Do not touch files named verif_on.go / verif_off.go and do not remove calls to functions whose names start with `verif` (they are inert instrumentation stubs).

Deliver, inside {wt}:
 1. the source change left applied in the worktree (uncommitted), limited to non-test library files;
 2. a demonstration file `seeded_demo_test.go` (package nutsdb in {wt}, or in ds/list, ds/set or ds/zset if the change is there) containing ONE test function `TestSeededDemo` that FAILS with your change and PASSES on the original code (verify both: save the source change with `git diff > /tmp/<your-worktree-name>.patch`, undo it with `git apply -R`, re-apply it with `git apply`, keeping the demo file; do NOT use `git stash`, it is shared between worktrees). The demo must use a fresh temp directory and be deterministic;
 3. a short file `{wt}/SEEDED.md` saying: which file/function you changed, why it breaks the property, and exactly what is needed for the bug to manifest.

Make exactly one bug (one logical change, possibly touching two cooperating sites). Finish by reporting: the diff (git diff of library files), the outcome of the existing test suite with the change, and the demo result with and without the change.'''
props = {json.loads(l)['id']: json.loads(l) for l in open(os.path.join(V, 'properties.jsonl'))}
pid = sys.argv[1]
wt = sys.argv[2] if len(sys.argv) > 2 else '/tmp/mut-' + pid
extra = ("\nNote: " + sys.argv[3] + "\n") if len(sys.argv) > 3 else ""
p = props[pid]
print(T.format(wt=wt, pid=pid, title=p['title'], stmt=p['statement'], q=p['quantifier']['text'], extra=extra))
