#!/bin/bash
# seed_run.sh <seeded-name> <check-id> [tier]: run a check against a scratch worktree of /repo with the seeded patch applied
# (VERIF_REPO points the harness build at the worktree; evidence goes to the scratch build dir). Prints the verdict.
set -u
NAME=$1; CID=$2; TIER=${3:-quick}
WT=$(mktemp -d /tmp/seedrun-XXXXXX); rmdir $WT
git -C /repo worktree add -q --detach $WT HEAD || exit 2
git -C $WT apply /verif/seeded/$NAME/patch.diff || { echo "patch does not apply"; git -C /repo worktree remove --force $WT; exit 2; }
VERIF_REPO=$WT VERIF_BUILD=$WT/.vbuild VERIF_EVIDENCE_DIR=$WT/.vbuild/evidence /verif/check $CID --tier $TIER > $WT/.out 2>&1; RC=$?
echo "seeded=$NAME check=$CID tier=$TIER rc=$RC"; grep -a "^VIOLATION\|^INFRA" $WT/.out | cut -c1-300 | head -5
git -C /repo worktree remove --force $WT
exit $RC
