"""Per-property checks.  Each returns through core.Result.finish()."""
import argparse
import json
import os
import sys

import core
from core import Infra, Result


def read_cfg(name):
    with open(os.path.join(core.SPEC, "mc", name)) as f:
        return f.read()


def seeds(base, n):
    return [base * 1000 + i for i in range(n)]


# ---------------------------------------------------------------- C01

def c01(tier, seed):
    res = Result("C01", tier, seed)
    core.build()
    # 1. the design: bounded model of the API grain, KV universe
    cfg = read_cfg("NutsMC_kv.cfg")
    res.add_mc("NutsMC_kv", core.tlc_mc("NutsMC", cfg, timeout=900))
    # 2. code -> spec: random histories in both RAM modes x both RW modes
    nseed = 2 if tier == "quick" else 40
    hist, steps = (3, 40) if tier == "quick" else (4, 80)
    shards = []
    for mode in ("keyval", "keyonly"):
        for rw in ("fileio", "mmap"):
            for s in seeds(seed, nseed):
                shards.append(["-family", "kv", "-mode", mode, "-rw", rw, "-seed", str(s),
                               "-hist", str(hist), "-steps", str(steps)])
    rs = core.drive_and_validate(res, shards, core.dev_set(), "KV read result differs from the ordered-map model",
                                 "kv histories (Put/PutWithTimestamp/Delete, rotations, reopen) with full read battery")
    res.cov["samples"] = core.sample_events(rs[0]["trace"], 8, ops={"put", "del", "get", "range", "pscan", "getall"})
    reads = sum(res.extra.get("events_by_op", {}).get(k, 0) for k in ("get", "getall", "range", "pscan", "psscan"))
    res.cov["distinct_nontrivial"] = reads
    res.cov["rule"] = ("events = public call returns recorded from the real library; non-trivial = read calls "
                       "(get/getall/range/pscan/psscan) whose full result TLC compared with KVSpec on the model state")
    res.assumptions += ["values are printable ASCII; keys from a 13-key universe with shared prefixes",
                        "expiry instants are kept >= 500 s away from the wall clock"]
    return res.finish()


def mc_cfg(res, name, expect=None, timeout=900):
    res.add_mc(name, core.tlc_mc("NutsMC", read_cfg(name + ".cfg"), timeout=timeout), expect_violation=expect)


def ds_check(pid, kind, fam, mc, tier, seed, gen_quick, gen_thorough, what):
    """Common shape of C05/C06/C07: design MC, exhaustive spec->code replay
    (through transactions and on the exported type), random long histories."""
    res = Result(pid, tier, seed)
    core.build()
    mc_cfg(res, mc)
    # spec -> code: every transition of the bounded model, emitted by TLC
    path, g, n = core.gen_transitions("DsGen_%s.cfg" % kind, gen_quick if tier == "quick" else gen_thorough)
    res.add_mc("DsGen_%s" % kind, g)
    res.extra["emitted_transitions"] = n
    lay = "1"
    if kind == "zset":
        lay = "2" if tier == "quick" else "16"
    shards = [["@replay", "-in", path, "-mode", "tx", "-layouts", lay, "-seed", str(seed)],
              # on the exported types only the SMove deviation applies (F-C06-1 and F-C07-1 are Tx-level)
              ["@replay", "#dev=F-C06-2", "-in", path, "-mode", "ds", "-layouts", lay, "-seed", str(seed)]]
    # code -> spec: long random sequences through transactions
    nseed = 3 if tier == "quick" else 40
    hist, steps = (3, 60) if tier == "quick" else (4, 300)
    for s in seeds(seed, nseed):
        shards.append(["-family", fam, "-seed", str(s), "-hist", str(hist), "-steps", str(steps)])
    rs = core.drive_and_validate(res, shards, core.dev_set(), what,
                                 "exhaustive %s transitions (tx and exported type) + random %s histories" % (kind, fam))
    res.cov["samples"] = core.sample_events(path, 3) + core.sample_events(rs[0]["trace"], 6, ops=None)[3:]
    res.cov["exhaustive"] = True
    res.cov["distinct_nontrivial"] = n
    res.cov["rule"] = ("every (state, call, arguments) transition of the bounded DsGen model is emitted once by TLC and "
                       "executed through Tx and on the exported type; distinct_nontrivial = number of distinct emitted "
                       "transitions; evaluations = recorded events validated by TLC (replay + random histories)")
    res.assumptions += ["exhaustive only within the bound stated in spec/gen/DsGen_%s.cfg" % kind,
                        "in-transaction read-your-writes is out of scope here (C13)"]
    return res.finish()


def c05(tier, seed):
    return ds_check("C05", "list", "list", "NutsMC_ls", tier, seed, {}, {"MaxLen": "= 4"},
                    "list call result or resulting list differs from the Redis-list model")


def c06(tier, seed):
    return ds_check("C06", "set", "set", "NutsMC_st", tier, seed, {"GVals": '= {"a", ""}'}, {},
                    "set call result or resulting sets differ from the set model")


def c07(tier, seed):
    return ds_check("C07", "zset", "zset", "NutsMC_zs", tier, seed,
                    {"GVals": '= {"v"}', "GKeys": "<- GKeys3", "MaxLen": "= 2", "GLim": "= 1"},
                    {"GVals": '= {"v"}'},
                    "sorted-set call result or resulting order differs from the (score,key) model")


CHECKS = {"C01": c01, "C05": c05, "C06": c06, "C07": c07}


def main(argv):
    ap = argparse.ArgumentParser()
    ap.add_argument("pid")
    ap.add_argument("--tier", default=os.environ.get("VERIF_TIER", "quick"))
    ap.add_argument("--seed", type=int, default=int(os.environ.get("VERIF_SEED", "1")))
    ap.add_argument("--replay")
    a = ap.parse_args(argv)
    if a.pid not in CHECKS:
        sys.stderr.write("unknown property %s\n" % a.pid)
        sys.exit(2)
    core.main_wrapper(lambda: CHECKS[a.pid](a.tier, a.seed))
