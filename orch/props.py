"""Per-property checks.  Each returns through core.Result.finish()."""
import argparse
import json
import os
import sys

import core
from core import Infra, Result


def read_cfg(name):
    with open(os.path.join(core.SPEC, "mc", name)) as f:
        return f.read()


def seeds(base, n):
    return [base * 1000 + i for i in range(n)]


# ---------------------------------------------------------------- C01

def c01(tier, seed):
    res = Result("C01", tier, seed)
    core.build()
    # 1. the design: bounded model of the API grain, KV universe
    cfg = read_cfg("NutsMC_kv.cfg")
    res.add_mc("NutsMC_kv", core.tlc_mc("NutsMC", cfg, timeout=900))
    # 2. code -> spec: random histories in both RAM modes x both RW modes
    nseed = 2 if tier == "quick" else 40
    hist, steps = (3, 40) if tier == "quick" else (4, 80)
    shards = []
    for mode in ("keyval", "keyonly"):
        for rw in ("fileio", "mmap"):
            for s in seeds(seed, nseed):
                shards.append(["-family", "kv", "-mode", mode, "-rw", rw, "-seed", str(s),
                               "-hist", str(hist), "-steps", str(steps)])
    # large segments and block-sized values (zero runs, 0xFF runs), with backups, merges and reopens
    shards += fam_shards([("bigval", ["-mode", "keyonly"])], seed + 2, 1 if tier == "quick" else 6, 2, 15 if tier == "quick" else 50)
    # the sleep-across-expiry scenario: reads in the very second in which now == timestamp + TTL
    shards += [["-family", "ttl", "-mode", m, "-seed", str(seed), "-hist", "1"] for m in ("keyval", "keyonly")]
    # component check of bptree.go on its own: ~110 keys, several levels of splits
    shards += fam_shards([("bptree", [])], seed, 1 if tier == "quick" else 10, 1 if tier == "quick" else 2, 10 if tier == "quick" else 40)
    rs = core.drive_and_validate(res, shards, core.dev_set(), "KV read result differs from the ordered-map model",
                                 "kv histories (Put/PutWithTimestamp/Delete, rotations, reopen) with full read battery")
    res.cov["samples"] = core.sample_events(rs[0]["trace"], 8, ops={"put", "del", "get", "range", "pscan", "getall"})
    res.cov["distinct_nontrivial"] = core.distinct_events(rs, {"get", "getall", "range", "pscan", "psscan"})
    res.cov["rule"] = ("events = public call returns recorded from the real library; non-trivial = distinct read calls "
                       "(get/getall/range/pscan/psscan with distinct arguments or results) whose full result TLC compared with KVSpec on the model state")
    res.assumptions += ["values are printable ASCII; keys from a 13-key universe with shared prefixes",
                        "expiry instants are kept >= 500 s away from the wall clock"]
    return res.finish()


def cfg_with(name, inv=None, props=None, consts=None):
    """spec/mc/<name>.cfg with its INVARIANTS / PROPERTIES lines and constants replaced."""
    import re
    cfg = read_cfg(name + ".cfg")
    if inv is not None:
        cfg = re.sub(r"(?m)^INVARIANTS .*$", "INVARIANTS " + " ".join(inv) if inv else "", cfg)
    if props is not None:
        cfg = re.sub(r"(?m)^PROPERTIES .*$", ("PROPERTIES " + " ".join(props)) if props else "", cfg)
    for k, v in (consts or {}).items():
        cfg, n = re.subn(r"(?m)^  %s (=|<-) .*$" % re.escape(k), "  %s %s" % (k, v), cfg)
        if n != 1:
            raise Infra("constant %s not found in %s" % (k, name))
    return cfg


def mc_cfg(res, name, expect=None, timeout=900, inv=None, props=None, consts=None, label=None, simulate=None):
    """simulate=(num, depth): the constants in `consts` are explored by random walks (thorough tiers use it for
    bounds whose exhaustive search does not finish: MaxTx = 3 takes > 10 min for three of the four universes)."""
    cfg = cfg_with(name, inv, props, consts)
    res.add_mc((label or name) + (" [simulation]" if simulate else ""), core.tlc_mc("NutsMC", cfg, timeout=timeout, simulate=simulate), expect_violation=expect)


def split_file(path, n):
    """Split a scenario file into n files with the lines dealt round-robin."""
    outs = [open("%s.part%d" % (path, i), "w") for i in range(n)]
    with open(path) as f:
        for j, line in enumerate(f):
            outs[j % n].write(line)
    for o in outs:
        o.close()
    return ["%s.part%d" % (path, i) for i in range(n)]


def ds_check(pid, kind, fam, mc, tier, seed, gen_quick, gen_thorough, what):
    """Common shape of C05/C06/C07: design MC, exhaustive spec->code replay
    (through transactions and on the exported type), random long histories."""
    res = Result(pid, tier, seed)
    core.build()
    mc_cfg(res, mc)
    # spec -> code: every transition of the bounded model, emitted by TLC
    path, g, n = core.gen_transitions("DsGen_%s.cfg" % kind, gen_quick if tier == "quick" else gen_thorough)
    res.add_mc("DsGen_%s" % kind, g)
    res.extra["emitted_transitions"] = n
    lay = "1"
    if kind == "zset":
        lay = "2" if tier == "quick" else "6"
    # large scenario files are dealt round-robin into parts, one replay (and one TLC validation) per part
    parts = [path] if n < 20000 else split_file(path, 12)
    shards = []
    for pp in parts:
        shards += [["@replay", "-in", pp, "-mode", "tx", "-layouts", lay, "-seed", str(seed)],
                   # on the exported types only the SMove deviation applies (F-C06-1 and F-C07-1 are Tx-level)
                   ["@replay", "#dev=F-C06-2", "-in", pp, "-mode", "ds", "-layouts", lay, "-seed", str(seed)]]
    # code -> spec: long random sequences through transactions
    nseed = 3 if tier == "quick" else 40
    hist, steps = (3, 60) if tier == "quick" else (4, 300)
    for s in seeds(seed, nseed):
        shards.append(["-family", fam, "-seed", str(s), "-hist", str(hist), "-steps", str(steps)])
        # multi-operation transactions, a third of them focused on one key/member
        shards.append(["-family", fam + "multi", "-seed", str(s), "-hist", str(hist), "-steps", str(steps)])
    rs = core.drive_and_validate(res, shards, core.dev_set(), what,
                                 "exhaustive %s transitions (tx and exported type) + random %s histories" % (kind, fam))
    res.cov["samples"] = core.sample_events(path, 3) + core.sample_events(rs[0]["trace"], 6, ops=None)[3:]
    res.cov["exhaustive"] = True
    res.cov["distinct_nontrivial"] = n
    res.cov["rule"] = ("every (state, call, arguments) transition of the bounded DsGen model is emitted once by TLC and "
                       "executed through Tx and on the exported type; distinct_nontrivial = number of distinct emitted "
                       "transitions; evaluations = recorded events validated by TLC (replay + random histories)")
    res.assumptions += ["exhaustive only within the bound stated in spec/gen/DsGen_%s.cfg" % kind,
                        "in-transaction read-your-writes is out of scope here (C13)"]
    return res.finish()


def c05(tier, seed):
    return ds_check("C05", "list", "list", "NutsMC_ls", tier, seed, {}, {"MaxLen": "= 4"},
                    "list call result or resulting list differs from the Redis-list model")


def c06(tier, seed):
    return ds_check("C06", "set", "set", "NutsMC_st", tier, seed, {"GVals": '= {"a", ""}'}, {},
                    "set call result or resulting sets differ from the set model")


def c07(tier, seed):
    return ds_check("C07", "zset", "zset", "NutsMC_zs", tier, seed,
                    {"GVals": '= {"v"}', "GKeys": "<- GKeys3", "MaxLen": "= 2", "GLim": "= 1"},
                    {"GVals": '= {"v"}'},
                    "sorted-set call result or resulting order differs from the (score,key) model")


def fam_shards(fams, seed, nseed, hist, steps):
    out = []
    for fam, extra in fams:
        for s in seeds(seed, nseed):
            out.append(["-family", fam, "-seed", str(s), "-hist", str(hist), "-steps", str(steps)] + extra)
    return out


def c08(tier, seed):
    res = Result("C08", tier, seed)
    core.build()
    q = tier == "quick"
    for name in ("NutsMC_kv", "NutsMC_ls", "NutsMC_st", "NutsMC_zs"):
        mc_cfg(res, name, inv=["MCReopenInv", "TypeOK"], props=[], timeout=1800)
        if not q:
            mc_cfg(res, name, inv=["MCReopenInv", "TypeOK"], props=[], consts={"MaxTx": "= 3", "MaxOps": "= 3"}, simulate=(40000, 40), timeout=1800)
    # the recorded deviations must be counterexamples of this invariant in the model
    mc_cfg(res, "NutsMC_st", expect="MCReopenInv", inv=["MCReopenInv"], props=[], consts={"Dev": '= {"F-C06-2"}'}, label="NutsMC_st+F-C06-2")
    mc_cfg(res, "NutsMC_kv", expect="MCReopenInv", inv=["MCReopenInv"], props=[], consts={"UniqueIds": "= FALSE"}, label="NutsMC_kv+duplicate-tx-ids")
    fams = [("mixed", []), ("mixedkv", ["-mode", "keyval"]), ("mixedkv", ["-mode", "keyonly"])]
    shards = fam_shards(fams, seed, 2 if q else 24, 3 if q else 4, 40 if q else 120)
    rs = core.drive_and_validate(res, shards, core.dev_set(), "a read after Close/Open differs from the result before Close (or Open failed)",
                                 "mixed histories over KV/list/set/zset with real and shadow reopens")
    res.cov["samples"] = core.sample_events(rs[0]["trace"], 6, ops={"close", "open", "obs", "shadow"})
    ops = res.extra.get("events_by_op", {})
    res.cov["distinct_nontrivial"] = ops.get("open", 0) + core.distinct_events(rs, {"shadow"})
    res.cov["rule"] = ("non-trivial = real Close/Open pairs plus distinct shadow reopens (copy of the directory opened separately), each followed "
                       "by a full observation of every bucket and structure that TLC compared with Replay(log) and with the pre-close state")
    res.assumptions += ["lists/sets/sorted sets only in HintKeyValAndRAMIdxMode (README caveat); KV histories in both RAM modes; "
                        "sparse mode is covered by C02"]
    return res.finish()


def c12(tier, seed):
    res = Result("C12", tier, seed)
    core.build()
    q = tier == "quick"
    for name in ("NutsMC_kv", "NutsMC_ls", "NutsMC_st", "NutsMC_zs"):
        mc_cfg(res, name, inv=["TypeOK"], props=["NoEffect"], timeout=1800)
        if not q:
            mc_cfg(res, name, inv=["TypeOK"], props=["NoEffect"], consts={"MaxTx": "= 3", "MaxOps": "= 3"}, simulate=(40000, 40), timeout=1800)
    mc_cfg(res, "NutsMC_st", expect="NoEffect", inv=[], props=["NoEffect"], consts={"Dev": '= {"F-C06-2"}'}, label="NutsMC_st+F-C06-2")
    commit_mc(res, "Commit(faults)", inv=["TypeOK", "FaultAtomic"], consts=None if q else {"MaxTx": "4", "MaxRecs": "3", "Cap": "3"})
    commit_mc(res, "Commit+IndexDuringWrite", consts={"Sw": '{"IndexDuringWrite"}'}, inv=["FaultAtomic"], expect="FaultAtomic")
    commit_mc(res, "Commit+SyncFaultOnMark(F-C12-4)", consts={"Sw": '{"SyncFaultOnMark"}'}, inv=["FaultAtomic"], expect="FaultAtomic")
    fams = [("fail", []), ("failkv", ["-mode", "keyval"]), ("failkv", ["-mode", "keyonly"])]
    shards = [["%proto"] + a for a in fam_shards(fams, seed, 2 if q else 24, 3 if q else 4, 40 if q else 120)]
    # ... and across Merge: what a failed transaction left in the files stays without effect when Merge rewrites them
    shards += fam_shards([("failmerge", [])], seed, 2 if q else 12, 3 if q else 4, 40 if q else 100)
    rs = core.drive_and_validate(res, shards, core.dev_set(), "a transaction that ended without a successful commit changed a read (now or after reopen)",
                                 "histories with rollbacks, oversized entries, injected write/sync faults, read-only transactions calling mutators, calls on finished transactions")
    res.cov["samples"] = core.sample_events(rs[0]["trace"], 6, ops={"commit", "rollback"})
    ops = res.extra.get("events_by_op", {})
    res.cov["distinct_nontrivial"] = ops.get("rollback", 0) + res.extra.get("nontrivial", {}).get("failed_commits", 0)
    res.cov["rule"] = ("non-trivial = transactions that ended by Rollback or by a failing Commit; after each the following reads, full "
                       "observations and shadow reopens are compared by TLC with the unchanged model state")
    return res.finish()


def c13(tier, seed):
    res = Result("C13", tier, seed)
    core.build()
    q = tier == "quick"
    for name in ("NutsMC_kv", "NutsMC_ls", "NutsMC_st", "NutsMC_zs"):
        mc_cfg(res, name, inv=["TypeOK"], props=["SerialView", "SerialResults"], timeout=1800)
        if not q:
            mc_cfg(res, name, inv=["TypeOK"], props=["SerialView", "SerialResults"], consts={"MaxTx": "= 3", "MaxOps": "= 3"}, simulate=(40000, 40), timeout=1800)
    mc_cfg(res, "NutsMC_ls", expect="SerialResults", inv=[], props=["SerialResults"], consts={"Dev": '= {"F-C13-1"}'}, label="NutsMC_ls+F-C13-1")
    shards = []
    ntr = 0
    for kind, ov in (("list", {}), ("set", {"GVals": '= {"a", ""}'}), ("zset", {"GVals": '= {"v"}', "GKeys": "<- GKeys2", "MaxLen": "= 2", "GLim": "= 1", "GRadius": "= 1"})):
        path, g, n = core.gen_transitions("DsGen_%s.cfg" % kind, ov)
        res.add_mc("DsGen_%s" % kind, g)
        ntr += n
        shards.append(["@replay", "-in", path, "-mode", "intx", "-sample", "4000" if q else "60000", "-seed", str(seed)])
    shards += fam_shards([("intx", [])], seed, 2 if q else 24, 3 if q else 4, 40 if q else 120)
    # the same over structures that share bucket names and keys (a set and a key/value pair both named ab/a, ...)
    shards += fam_shards([("isointx", [])], seed, 1 if q else 12, 3 if q else 4, 40 if q else 120)
    rs = core.drive_and_validate(res, shards, core.dev_set(), "a result inside a write transaction (or the state it leaves) is not explained by running its operations in order on its start state",
                                 "two-operation transactions enumerated by TLC (DsGen) + random multi-operation transactions with reads and pops in between")
    res.cov["samples"] = core.sample_events(rs[-1]["trace"], 8, ops=None)
    res.cov["distinct_nontrivial"] = sum(r["summary"].get("executed", 0) for r in rs) // 2
    res.cov["rule"] = ("non-trivial = two-operation write transactions (first a mutating call, then any call on the same structure) "
                       "executed on the real library; TLC evaluates the second call on start state + first call")
    return res.finish()


def c09(tier, seed):
    res = Result("C09", tier, seed)
    core.build()
    q = tier == "quick"
    # design: Open is enabled on every reachable closed state and never takes a failing branch
    for name in ("NutsMC_kv", "NutsMC_ls", "NutsMC_st", "NutsMC_zs"):
        mc_cfg(res, name, inv=["MCReopenInv", "TypeOK"], props=[], timeout=1800)
    shards = []
    for mode in ("keyval", "keyonly"):
        for rw in ("fileio", "mmap"):
            shards += fam_shards([("fill", ["-mode", mode, "-rw", rw])], seed, 1 if q else 12, 4, 25 if q else 60)
    shards += fam_shards([("mixed", []), ("fail", []), ("failkv", ["-mode", "keyonly"]), ("mergekv", ["-mode", "keyval"])],
                         seed + 7, 1 if q else 12, 3, 40 if q else 100)
    # sparse mode: single-bucket key/value histories with keys of different lengths, Close/Open every ~12 transactions (as in C02)
    shards += fam_shards([("kv", ["-mode", "sparse", "-rw", "fileio"]), ("kv", ["-mode", "sparse", "-rw", "mmap"])], seed + 9, 1 if q else 8, 3, 40 if q else 100)
    rs = core.drive_and_validate(res, shards, core.dev_set(), "Open failed (or served something else than the committed transactions) on a directory the library produced",
                                 "segments filled to exactly 0..47 bytes before their end, empty values, reads of never-written buckets, no-op operations, failed commits, merges; then Close/Open and shadow opens")
    res.cov["samples"] = core.sample_events(rs[0]["trace"], 6, ops={"open", "shadow"})
    ops = res.extra.get("events_by_op", {})
    res.cov["distinct_nontrivial"] = ops.get("open", 0) + ops.get("shadow", 0) + ops.get("merge", 0)
    res.cov["rule"] = ("non-trivial = Open calls on library-produced directories (real reopen, shadow copy, copy after Merge); the only admitted "
                       "outcome is success with the contents Replay(log)")
    res.assumptions += ["crash images (a record being written when the process died) are exercised by the C10/C11/C16 checks with the same Open rule",
                        "sparse mode: single-bucket key/value histories only (as C02); multi-bucket, faulted and crashed sparse directories are outside this check"]
    return res.finish()


def mproto_shards(seed, q):
    """Merge at protocol grain: hook-recorded data-file mutations of key/value histories with merges, validated by MergeTrace.tla
    (every step of the real Merge is the next action of Merge.tla; MidMergeSafe / MergePreserves on every state it produced)."""
    fams = [("mergeproto", ["-mode", "keyval", "-rw", "fileio"]), ("mergeproto", ["-mode", "keyonly", "-rw", "mmap"])]
    return [["%mod=MergeTrace"] + a for a in fam_shards(fams, seed + 5, 1 if q else 6, 3 if q else 4, 40 if q else 90)]


def crash_check(pid, tier, seed, fams=None, what=None, desc=None, during=None, mc=None, proto=None, mproto=False):
    res = Result(pid, tier, seed)
    core.build()
    q = tier == "quick"
    if mc:
        mc(res, q)
    extra = [] if q else ["-alltorn"]
    shards = fam_shards([(f, a + extra) for f, a in fams], seed, 1 if q else 4, 2, 12 if q else 16)
    # conformance of the commit protocol itself: hook-recorded file mutations of ordinary histories against Commit.tla
    shards += [["%proto"] + a for a in fam_shards(proto or [], seed + 3, 1 if q else 8, 3, 30 if q else 80)]
    if mproto:
        shards += mproto_shards(seed, q)
    rs = core.drive_and_validate(res, shards, core.dev_set(), what, desc)
    res.cov["samples"] = [dict(e, o="...") for e in core.sample_events(rs[0]["trace"], 5, ops={"crash"})]
    res.cov["distinct_nontrivial"] = res.extra.get("nontrivial", {}).get("crash_images", 0)
    res.cov["exhaustive"] = False
    res.cov["rule"] = ("non-trivial = crash images: for every file mutation recorded by the verifFS hook during the workload the directory is rebuilt "
                       "as it was after that mutation (and with the next write torn at record-field boundaries" +
                       ("; power loss: reverted to the last sync with the unsynced tail dropped or torn" if pid == "C11" else "") +
                       "), the real Open runs on it in a child process and TLC compares what it serves with Replay(log) of the transactions that had "
                       "returned, plus possibly the in-flight one in full")
    return res


def c10(tier, seed):
    res = crash_check("C10", tier, seed, mc=lambda res, q: (
        commit_mc(res, "Commit(SyncOn)", consts=None if q else {"MaxTx": "4", "MaxRecs": "3", "Cap": "3"}),
        commit_mc(res, "Commit(SyncOff)", consts={"SyncOn": "FALSE"} if q else {"SyncOn": "FALSE", "MaxTx": "4", "MaxRecs": "3", "Cap": "3"}),
        commit_mc(res, "Commit+DupIds", consts={"Sw": '{"DupIds"}'}, inv=["CrashAtomic"], expect="CrashAtomic"),
        commit_mc(res, "Commit+TornTailAborts", consts={"Sw": '{"TornTailAborts"}'}, inv=["RecoverTotal"], expect="RecoverTotal")),
        proto=[("mixedkv", ["-mode", "keyval"]), ("mixed", [])], fams=
                      [("crashkv", ["-mode", "keyval", "-rw", "fileio"]), ("crashkv", ["-mode", "keyonly", "-rw", "mmap"]),
                       ("crashkv", ["-mode", "keyval", "-rw", "mmap"]), ("crashkv", ["-mode", "keyonly", "-rw", "fileio"]),
                       ("crash", ["-rw", "fileio"]), ("crash", ["-rw", "mmap"]),
                       # the history continues on the crashed directory (a rotating commit, then another reopen)
                       ("crashcontkv", ["-mode", "keyval", "-hist", "16"]), ("crashcontkv", ["-mode", "keyonly", "-hist", "16"]),
                       ("crashcont", ["-hist", "12"])],
                      what="after a process crash Open failed, lost a returned transaction or showed part of an unfinished one",
                      desc="workloads (multi-record transactions across rotations, rollbacks, oversized entries followed in the same millisecond by a committing transaction, reopen) with a crash at every file-mutation point")
    return res.finish()


def c11(tier, seed):
    res = crash_check("C11", tier, seed, mc=lambda res, q: (
        commit_mc(res, "Commit(SyncOn)", inv=["TypeOK", "Durable", "RecoverTotal"], consts=None if q else {"MaxTx": "4", "MaxRecs": "3", "Cap": "3"}),
        commit_mc(res, "Commit+SyncOncePerTx", consts={"Sw": '{"SyncOncePerTx"}'}, inv=["Durable"], expect="Durable")),
        proto=[("mixedkv", ["-mode", "keyonly"]), ("failkv", ["-mode", "keyval"]), ("mergekv", ["-mode", "keyval"])], fams=
                      [("powerkv", ["-mode", "keyval", "-rw", "fileio"]), ("powerkv", ["-mode", "keyonly", "-rw", "mmap"]),
                       ("powerkv", ["-mode", "keyonly", "-rw", "fileio"]), ("power", ["-rw", "fileio"]), ("power", ["-rw", "mmap"]),
                       ("powermergekv", ["-mode", "keyval", "-steps", "20"])],
                      what="after a power loss with SyncEnable Open failed, lost a returned transaction or showed part of an unfinished one",
                      desc="SyncEnable workloads with power lost at every file-mutation point: files revert to their last sync, the unsynced tail dropped or torn, unsynced creations and removals kept or undone")
    res.assumptions += ["a sync of a file also makes its directory entry durable (the property's stated assumption)",
                        "power-loss images: unsynced writes are dropped, or the first of them kept torn at a record-field boundary; out-of-order persistence of several unsynced writes is not generated"]
    return res.finish()


def c16(tier, seed):
    res = crash_check("C16", tier, seed, mc=lambda res, q: (
        merge_mc(res, "Merge(kv)", inv=["TypeOK", "Agree", "MergeCrashSafe", "MidMergeSafe"], consts=None if q else {"MaxUser": "6"}),
        merge_mc(res, "Merge+Lists(F-C16-1)", consts={"Sw": '{"Lists"}'}, inv=["MergeCrashSafe"], expect="MergeCrashSafe"),
        merge_mc(res, "Merge+DelayedRewrite", consts={"Sw": '{"DelayedRewrite"}'}, inv=["MergeCrashSafe"], expect="MergeCrashSafe")),
        fams=
                      [("crashmergekv", ["-mode", "keyval", "-rw", "fileio"]), ("crashmergekv", ["-mode", "keyonly", "-rw", "mmap"]),
                       ("crashmergekv", ["-mode", "keyonly", "-rw", "fileio"]), ("crashmergeds", []), ("crashmerge", []),
                       ("crashmergemany", ["-mode", "keyval", "-hist", "1", "-steps", "40"])], mproto=True,
                      what="after a crash inside Merge the reopened database differs from the contents before Merge (or Open failed)",
                      desc="workloads with Merge calls; a crash at every file mutation inside Merge (rewrites, creations, removals; torn writes); and the file mutations of real merges as steps of Merge.tla (MergeTrace)")
    return res.finish()


def c04(tier, seed):
    res = Result("C04", tier, seed)
    core.build()
    q = tier == "quick"
    for name in ("NutsMC_kv", "NutsMC_ls", "NutsMC_st", "NutsMC_zs"):
        mc_cfg(res, name, inv=["TypeOK"], props=["BucketIsolation"], timeout=1800)
        if not q:
            mc_cfg(res, name, inv=["TypeOK"], props=["BucketIsolation"], consts={"MaxTx": "= 3", "MaxOps": "= 3"}, simulate=(40000, 40), timeout=1800)
    fams = [("iso", []), ("isokv", ["-mode", "keyval"]), ("isokv", ["-mode", "keyonly"]), ("isomerge", [])] + SPARSE_ISO
    shards = fam_shards(fams, seed, 2 if q else 20, 3 if q else 4, 40 if q else 100)
    rs = core.drive_and_validate(res, shards, core.dev_set(), "a write to one bucket changed what a read of another bucket returns (or a bucket does not return its own data)",
                                 "histories over adversarial bucket names ('a','ab','','a|b','b' with keys such that bucket+key concatenations coincide) for KV, lists, sets and sorted sets, with a full observation of every bucket after every transaction; one family also merges and reopens")
    res.cov["samples"] = core.sample_events(rs[0]["trace"], 4, ops={"obs"})
    res.cov["distinct_nontrivial"] = core.distinct_events(rs, {"obs"})
    res.cov["rule"] = ("non-trivial = distinct full observations of every bucket of every structure taken after a transaction; TLC compares each with the model, "
                       "in which a commit changes only the buckets its records name (action property BucketIsolation, model-checked)")
    return res.finish()


SPARSE_ISO = []


def c19(tier, seed):
    res = Result("C19", tier, seed)
    core.build()
    q = tier == "quick"
    # the specification has no option-dependent behaviour: the design itself is checked as for C01/C08
    mc_cfg(res, "NutsMC_kv", inv=["MCReopenInv", "TypeOK"], props=[], timeout=1800)
    shards = fam_shards([("productkv", []), ("product", []), ("productfill", ["-steps", "12"])] + SPARSE_PRODUCT, seed, 1 if q else 12, 2 if q else 3, 30 if q else 80)
    rs = core.drive_and_validate(res, shards, core.dev_set(), "the same call sequence gave a different result under another RWMode/StartFileLoadingMode/SyncEnable/RAM index mode",
                                 "product runs: the same seeded history executed under every combination of RWMode x StartFileLoadingMode x SyncEnable (x both RAM index modes for KV histories, with merges), compared event by event")
    res.cov["samples"] = core.sample_events(rs[0]["trace"], 5, ops={"get", "obs", "open", "commit"})
    res.cov["distinct_nontrivial"] = res.extra.get("nontrivial", {}).get("product_distinct_calls", 0)
    res.extra["configurations_per_history"] = {"productkv": 16, "product": 8, "productfill": 8, "productsparse": 24}
    res.cov["rule"] = ("every event carries one digest of (operation, arguments, results) per configuration; TLC requires all digests equal (AltOK) "
                       "and the first configuration's event to be a step of Nuts.tla; evaluations = events validated; distinct_nontrivial = positions of a product history "
                       "whose (operation, arguments, result) differs from every earlier position, each compared across all configurations")
    res.assumptions += ["digests are computed by the driver (sha1 of the normalised event); their equality is judged by TLC"]
    return res.finish()


SPARSE_PRODUCT = [("productsparse", ["-hist", "1", "-steps", "25"])]


def c03(tier, seed):
    res = Result("C03", tier, seed)
    core.build()
    q = tier == "quick"
    mc_cfg(res, "NutsMC_kv", inv=["MCReopenInv", "TypeOK"], props=[], timeout=1800)
    sparse_mc(res, "Sparse", inv=["TypeOK", "ScanOK", "AllOK"], consts=None if q else {"NKeys": "4", "MaxWrites": "5", "MaxSegs": "3"})
    sparse_mc(res, "Sparse+PerSegPaging", consts={"Sw": '{"PerSegPaging"}'}, inv=["ScanOK"], expect="ScanOK")
    path, g, n = core.gen_transitions("DsGen_kvpage.cfg", {} if q else {"MaxLen": "= 5"}, timeout=1800)
    res.add_mc("DsGen_kvpage", g)
    res.extra["emitted_transitions"] = n
    shards = [["@replay", "-in", path, "-mode", "tx", "-idx", m, "-batch", "8", "-seed", str(seed)] for m in ("keyval", "keyonly")]
    # sparse mode: every query in the thorough tier, a third of them (dealt round-robin) in the quick tier
    shards += SPARSE_PAGE(split_file(path, 3)[seed % 3] if q else path, seed)
    for mode in ("keyval", "keyonly", "sparse"):
        shards += fam_shards([("page", ["-mode", mode])], seed, 1 if q else 12, 2 if q else 3, 30 if q else 80)
    # paging after Merge (puts without TTL and deletes of existing keys only, so that any bookkeeping of "valid keys" is exact)
    shards += fam_shards([("pagemerge", ["-mode", "keyval"]), ("pagemerge", ["-mode", "keyonly"])], seed, 1 if q else 8, 2 if q else 3, 40 if q else 90)
    # paging on the exported B+ tree itself (several leaves and levels; offsets up to beyond the key count)
    shards += fam_shards([("bptree", [])], seed + 1, 1 if q else 10, 1 if q else 2, 10 if q else 40)
    rs = core.drive_and_validate(res, shards, core.dev_set(), "a paginated scan returned something else than the live keys with the prefix after skipping offset, at most limit",
                                 "every status assignment (absent/live/deleted/expired) of a small key universe x every (prefix, offset, limit, regexp), enumerated by TLC and replayed; random histories with paged scans over 41 keys")
    res.cov["samples"] = core.sample_events(path, 3) + core.sample_events(rs[0]["trace"], 4, ops={"pscan", "psscan"})
    res.cov["exhaustive"] = True
    res.cov["distinct_nontrivial"] = n
    res.cov["rule"] = ("every (state, query) pair of the bounded DsGen kvpage model is emitted once by TLC and executed in each index mode; TLC then "
                       "validates each recorded page against KVSpec!PageOK on the state built from the recorded puts and deletes")
    res.assumptions += ["exhaustive for 4 (quick) / 5 (thorough) keys with nested prefixes, offsets 0..n+1, limits -1..n+1, prefixes {'', a, ab, b, c}, 4 regular expressions",
                        "limit 0 fixes no count in the statement: any prefix of the remaining keys is admitted"]
    return res.finish()


def SPARSE_PAGE(path, seed):
    # sparse mode with 128-byte segments: the keys of a state are spread over one to three segments
    return [["@replay", "-in", path, "-mode", "tx", "-idx", "sparse", "-seg", "128", "-batch", "8", "-seed", str(seed)]]


def c20(tier, seed):
    res = Result("C20", tier, seed)
    core.build()
    q = tier == "quick"
    path, g, n = core.gen_transitions("ApiTotal.cfg", {} if q else {"Full": "= TRUE"}, timeout=1800, module="ApiTotal")
    res.add_mc("ApiTotal", g)
    res.extra["emitted_calls"] = n
    shards = [["@replay", "%mod=ApiTotalTrace", "-in", path, "-mode", "total"]]
    # every other driver records panics too: random call orders over all structures, with failures and merges
    shards += fam_shards([("fail", []), ("merge", []), ("intx", [])], seed, 1 if q else 8, 2 if q else 3, 30 if q else 80)
    rs = core.drive_and_validate(res, shards, core.dev_set(), "an API call panicked (or never returned), or a Commit after a successful call panicked",
                                 "every exported method of Tx and DB x lifecycle state x boundary-heavy argument tuples enumerated by TLC (ApiTotal.tla), executed under recover(); plus random histories")
    res.cov["samples"] = core.sample_events(path, 4) + core.sample_events(rs[0]["trace"], 4)
    res.cov["exhaustive"] = True
    res.cov["distinct_nontrivial"] = n
    res.cov["rule"] = ("every (method, lifecycle state, argument tuple) of ApiTotal.tla is emitted once by TLC and executed on the real library; "
                       "ApiTotalTrace accepts a recorded call iff it returned (value or error), the following Commit returned, and calls on finished "
                       "transactions / closed databases returned an error")
    res.assumptions += ["argument domains: (bucket,key) pairs incl. nil/empty/separator/missing, ints MinInt64..MaxInt64, NaN/Inf scores, invalid regexp, nil and odd option structs; "
                        "full products in the active lifecycle states, one representative tuple in the finished/closed ones"]
    return res.finish()


def c22(tier, seed):
    res = Result("C22", tier, seed)
    core.build()
    path, g, n = core.gen_transitions("ModeCompat.cfg", {}, module="ModeCompat")
    res.add_mc("ModeCompat", g)
    res.extra["emitted_combinations"] = n
    nrep = 2 if tier == "quick" else 12
    shards = [["@replay", "%mod=ModeCompatTrace", "-in", path, "-mode", "compat", "-seed", str(seed * 100 + i)] for i in range(nrep)]
    rs = core.drive_and_validate(res, shards, core.dev_set(), "opening with another index mode was not refused (or changed the directory), or a RAM-mode switch changed the contents",
                                 "every (creating mode, directory state, reopen mode) combination x FileIO/MMap x several generated contents")
    res.cov["samples"] = core.sample_events(rs[0]["trace"], 6)
    res.cov["exhaustive"] = True
    res.cov["distinct_nontrivial"] = n
    res.cov["rule"] = ("all 54 (creating mode, state in {empty, fresh, written, merged, crashed mid-commit, crashed mid-rotation}, reopen mode) combinations "
                       "are emitted by TLC and executed with both RWModes; TLC judges refusal + unchanged directory digest, or success + equal observation digest")
    res.assumptions += ["digests (sha1 of the directory tree / of the full observation) are computed by the replayer; their equality is judged by TLC"]
    return res.finish()


def c02(tier, seed):
    res = Result("C02", tier, seed)
    core.build()
    q = tier == "quick"
    mc_cfg(res, "NutsMC_kv", inv=["MCReopenInv", "TypeOK"], props=[], timeout=1800)
    # design of the sparse lookups: active segment, then sealed segments newest first, by key range
    big = None if q else {"NKeys": "4", "MaxWrites": "5", "MaxSegs": "3"}
    sparse_mc(res, "Sparse", consts=big)
    sparse_mc(res, "Sparse+TombSkips", consts={"Sw": '{"TombSkips"}'}, inv=["GetOK"], expect="GetOK")
    sparse_mc(res, "Sparse+EndTruncated", consts={"Sw": '{"EndTruncated"}'}, inv=["GetOK"], expect="GetOK")
    sparse_mc(res, "Sparse+Contained", consts={"Sw": '{"Contained"}'}, inv=["ScanOK"], expect="ScanOK")
    sparse_mc(res, "Sparse+ActiveOnly", consts={"Sw": '{"ActiveOnly"}'}, inv=["AllOK"], expect="AllOK")
    shards = []
    for rw in ("fileio", "mmap"):
        shards += fam_shards([("kv", ["-mode", "sparse", "-rw", rw])], seed, 2 if q else 20, 3 if q else 4, 40 if q else 100)
    shards += fam_shards([("page", ["-mode", "sparse"])], seed, 1 if q else 10, 2, 30 if q else 60)
    shards += [["-family", "ttl", "-mode", "sparse", "-seed", str(seed), "-hist", "1"]]
    rs = core.drive_and_validate(res, shards, core.dev_set(), "a sparse-mode read (or a reopen) returned something else than the live pairs of the bucket",
                                 "single-bucket Put/PutWithTimestamp/Delete histories in HintBPTSparseIdxMode with 128-512 byte segments (most keys in sealed segments), Close/Open every ~12 transactions")
    res.cov["samples"] = core.sample_events(rs[0]["trace"], 6, ops={"get", "obs", "open"})
    ops = res.extra.get("events_by_op", {})
    res.cov["distinct_nontrivial"] = ops.get("get", 0) + ops.get("obs", 0)
    ops = res.extra.get("events_by_op", {})
    res.cov["distinct_nontrivial"] = core.distinct_events(rs, {"get", "getall", "range", "pscan", "psscan", "obs"})
    res.cov["rule"] = ("non-trivial = distinct Get / GetAll / RangeScan / PrefixScan / PrefixSearchScan calls and full observations, each compared exactly by TLC "
                       "with the ordered-map model (KVSpec), as in C01")
    res.assumptions += ["single-bucket histories with unambiguous bucket+key concatenations (the statement's scope)"]
    return res.finish()


def lock_mc(res, cfgname, label, consts=None, inv=None, props=None, expect=None, timeout=1800):
    import re
    cfg = open(os.path.join(core.SPEC, "mc", cfgname)).read()
    if inv is not None:
        cfg = re.sub(r"(?m)^INVARIANTS .*$", ("INVARIANTS " + " ".join(inv)) if inv else "", cfg)
    if props is not None:
        cfg = re.sub(r"(?m)^PROPERTIES .*$", ("PROPERTIES " + " ".join(props)) if props else "", cfg)
    for k, v in (consts or {}).items():
        cfg, n = re.subn(r"(?m)^  %s (=|<-) .*$" % re.escape(k), "  %s %s" % (k, v), cfg)
        if n != 1:
            raise Infra("constant %s not found in %s" % (k, cfgname))
    res.add_mc(label, core.tlc_mc("Lock", cfg, timeout=timeout), expect_violation=expect)


def commit_mc(res, label, consts=None, inv=None, expect=None, timeout=1800):
    import re
    cfg = open(os.path.join(core.SPEC, "mc", "Commit_base.cfg")).read()
    if inv is not None:
        cfg = re.sub(r"(?m)^INVARIANTS .*$", "INVARIANTS " + " ".join(inv), cfg)
    for k, v in (consts or {}).items():
        cfg, n = re.subn(r"(?m)^  %s (=|<-) .*$" % re.escape(k), "  %s = %s" % (k, v), cfg)
        if n != 1:
            raise Infra("constant %s not found in Commit_base.cfg" % k)
    res.add_mc(label, core.tlc_mc("Commit", cfg, timeout=timeout), expect_violation=expect)


def merge_mc(res, label, consts=None, inv=None, expect=None, timeout=1800):
    import re
    cfg = open(os.path.join(core.SPEC, "mc", "Merge_base.cfg")).read()
    if inv is not None:
        cfg = re.sub(r"(?m)^INVARIANTS .*$", "INVARIANTS " + " ".join(inv), cfg)
    for k, v in (consts or {}).items():
        cfg, n = re.subn(r"(?m)^  %s (=|<-) .*$" % re.escape(k), "  %s = %s" % (k, v), cfg)
        if n != 1:
            raise Infra("constant %s not found in Merge_base.cfg" % k)
    res.add_mc(label, core.tlc_mc("Merge", cfg, timeout=timeout), expect_violation=expect)


def sparse_mc(res, label, consts=None, inv=None, expect=None, timeout=1800):
    """Sparse.tla: the lookup procedures of HintBPTSparseIdxMode against the ordered map."""
    import re
    cfg = open(os.path.join(core.SPEC, "mc", "Sparse_base.cfg")).read()
    if inv is not None:
        cfg = re.sub(r"(?m)^INVARIANTS .*$", "INVARIANTS " + " ".join(inv), cfg)
    for k, v in (consts or {}).items():
        cfg, n = re.subn(r"(?m)^  %s (=|<-) .*$" % re.escape(k), "  %s = %s" % (k, v), cfg)
        if n != 1:
            raise Infra("constant %s not found in Sparse_base.cfg" % k)
    res.add_mc(label, core.tlc_mc("Sparse", cfg, timeout=timeout), expect_violation=expect)


def conc_shards(fams, seed, nseed, hist, steps):
    return [["%conc"] + a for a in fam_shards(fams, seed, nseed, hist, steps)]


def c14(tier, seed):
    res = Result("C14", tier, seed)
    core.build()
    q = tier == "quick"
    # the design: 2 databases, 2 writers + 2 readers x 2 transactions, a merger that (in the ideal design) locks
    lock_mc(res, "Lock_base.cfg", "Lock(2 dbs, 2w+2r x2, merger)", consts=None if q else {"MaxTx": "= 3"})
    lock_mc(res, "Lock_one.cfg", "Lock(1 db, 2w+2r+backup, merger)")
    # the fixed defects are counterexamples of LockSet in the model
    lock_mc(res, "Lock_base.cfg", "Lock+GlobalQueue", consts={"Sw": '= {"GlobalQueue"}'}, expect="LockSet")
    lock_mc(res, "Lock_base.cfg", "Lock+SortShared", consts={"Sw": '= {"SortShared"}'}, expect="LockSet")
    fams = [("conc", ["-mode", "keyval"]), ("conc", ["-mode", "keyonly"]), ("conc", ["-mode", "sparse"])]
    shards = conc_shards(fams, seed, 1 if q else 16, 2 if q else 4, 30 if q else 45)
    rs = core.drive_and_validate(res, shards, core.dev_set(), "concurrent transactions are not explained by the serial order of their lock acquisitions (or the mutex / lockset discipline is broken, or the race detector fired)",
                                 "4-16 goroutines x 1-3 databases, mixed View/Update with injected yields, race-instrumented; linearised by the lock hook and validated as sequential histories; lock/access stream validated against LockCore")
    res.cov["samples"] = core.sample_events(rs[0]["trace"], 4, ops={"begin", "commit"}) + core.sample_events(rs[1]["trace"], 4)
    res.cov["distinct_nontrivial"] = res.extra.get("nontrivial", {}).get("concurrent_txs", 0)
    res.cov["rule"] = ("non-trivial = concurrent transactions; each database's transactions are ordered by the number of writer acquisitions the lock hook "
                       "counted when they got the lock, and TLC validates that order as a sequential history of Nuts.tla (every read of every read-only "
                       "transaction is taken twice and must equal the same snapshot; end/begin ticks must respect real time); the raw lock/access events are "
                       "validated against the RWMutex guards and the lockset monitor of LockCore.tla; race-detector reports are events no action admits")
    res.assumptions += ["schedules are those the Go scheduler produces under injected yields on this machine, not all schedules; exhaustive interleavings only in the Lock.tla model",
                        "a stuck run is detected by a watchdog (no transaction begins or ends, or one library call does not return, for 120 s)"]
    return res.finish()


def c17(tier, seed):
    res = Result("C17", tier, seed)
    core.build()
    q = tier == "quick"
    lock_mc(res, "Lock_one.cfg", "Lock(1 db, ideal merge under the lock)")
    # code-shaped merge: both the lockset violation and the lost update are counterexamples in the model
    lock_mc(res, "Lock_one.cfg", "Lock+MergeUnlocked/LockSet", consts={"Sw": '= {"MergeUnlocked"}'}, inv=["LockSet"], props=[], expect="LockSet")
    lock_mc(res, "Lock_one.cfg", "Lock+MergeUnlocked/NoLostUpdate", consts={"Sw": '= {"MergeUnlocked"}'}, inv=["Mutex"], props=["NoLostUpdate"], expect="NoLostUpdate")
    fams = [("concmerge", ["-mode", "keyval"]), ("concmerge", ["-mode", "keyonly"]), ("concmergegate", ["-mode", "keyval"])]
    shards = conc_shards(fams, seed, 1 if q else 12, 2 if q else 4, 30 if q else 45)
    rs = core.drive_and_validate(res, shards, core.dev_set(), "a Merge running next to transactions changed a result, raced outside the recorded finding, or broke the lock discipline",
                                 "3-8 goroutines with mixed View/Update while another goroutine calls Merge in a loop (race-instrumented), plus a gate-forced schedule in which an update commits between Merge's scan and rewrite")
    res.cov["samples"] = core.sample_events(rs[1]["trace"], 6)
    res.cov["distinct_nontrivial"] = res.extra.get("nontrivial", {}).get("concurrent_txs", 0)
    res.cov["rule"] = ("as C14, with a merging goroutine: results of every transaction and the final / reopened observation must equal the merge-free serial "
                       "history; the lock/access stream and the race reports must satisfy the lockset discipline")
    res.assumptions += ["on the pinned tree Merge is not synchronised (known findings F-C17-1 lockset/race, F-C17-2 lost update): a history is judged up to its first deviating read"]
    return res.finish()


def c18(tier, seed):
    res = Result("C18", tier, seed)
    core.build()
    q = tier == "quick"
    lock_mc(res, "Lock_one.cfg", "Lock(1 db, backup as two-step reader)")
    fams = [("concbackup", ["-mode", "keyval", "-rw", "fileio"]), ("concbackup", ["-mode", "keyonly", "-rw", "mmap"]),
            ("concbackup", ["-mode", "keyval", "-rw", "mmap"]), ("concbackup", ["-mode", "sparse"])]
    shards = conc_shards(fams, seed, 1 if q else 12, 2 if q else 4, 30 if q else 45)
    # quiescent backups of databases with 32-64 KiB segments and block-sized values (zero runs, 0xFF runs)
    for mode in ("keyval", "keyonly"):
        shards += fam_shards([("bigval", ["-mode", mode])], seed, 1 if q else 8, 2, 20 if q else 50)
    rs = core.drive_and_validate(res, shards, core.dev_set(), "a backup directory did not open, or shows something else than the state committed when its read transaction started",
                                 "a goroutine calls Backup(dir) in a loop while 3-8 goroutines write and read; every copy is opened with the same options and fully observed")
    res.cov["samples"] = [dict(e, o="...") for e in core.sample_events(rs[0]["trace"], 4, ops={"backup"})]
    res.cov["distinct_nontrivial"] = res.extra.get("events_by_op", {}).get("backup", 0)
    res.cov["rule"] = ("non-trivial = Backup calls; each is placed in the serial order after the last writer that had acquired the lock when the copy started "
                       "(gate hook inside Backup's read transaction), and TLC accepts it iff the copy opened and its full observation equals Replay(log) there")
    res.assumptions += ["quiescent backups (no concurrent writer) are the special case of this; lists/sets/sorted sets are not part of the concurrent histories"]
    return res.finish()


def c21(tier, seed):
    res = Result("C21", tier, seed)
    core.build()
    q = tier == "quick"
    # (HugeSizes = TRUE - flips in the two high-order bytes of the size fields, each making the reader allocate up to 4 GB - did not
    # finish within the driver timeout on this machine once the template set had grown; it stays a switch of Codec.tla)
    path, g, n = core.gen_transitions("Codec.cfg", {} if q else {"Pairs": "= TRUE"}, module="Codec", timeout=3000, heap="8g")
    res.add_mc("Codec", g)
    res.extra["emitted_reads"] = n
    shards = [["@replay", "%mod=CodecTrace", "-in", p, "-mode", "codec"] for p in split_file(path, 12)]
    rs = core.drive_and_validate(res, shards, core.dev_set(), "a stored record did not read back as written, or altered bytes were served as a record with different fields",
                                 "every (record template, mutation) pair of Codec.tla: data entries through DataFile.ReadAt with FileIO and MMap, sparse root-index records, bucket metadata; every single-bit flip and every truncation of the stored bytes")
    res.cov["samples"] = core.sample_events(rs[0]["trace"], 5)
    res.cov["exhaustive"] = True
    res.cov["distinct_nontrivial"] = n
    res.cov["rule"] = ("every (template, mutation) pair is emitted once by TLC and executed; the recording holds the fields written and the fields read; "
                       "TLC admits: unmutated -> a record with equal fields; mutated -> an error, 'absent', or a record with equal fields")
    res.assumptions += ["TLA+ contributes the enumeration and the acceptance rule, not the byte layout or the CRC arithmetic (DESIGN.md)",
                        "templates: each size field in {0,1,7}, flags {0,1,9,13}, status {0,1}, structure {0,2,4}, timestamp/TTL/tx id/file id/offset in {0,1,max}; "
                        "varied one (quick) or two (thorough) at a time around a base template, plus all size combinations; "
                        "flips in the two high-order bytes of size fields are not enumerated (the reader then allocates up to 4 GB per read; the switch HugeSizes of Codec.tla turns them on)"]
    return res.finish()


def c15(tier, seed):
    res = Result("C15", tier, seed)
    core.build()
    q = tier == "quick"
    for name in ("NutsMC_kv", "NutsMC_ls", "NutsMC_st", "NutsMC_zs"):
        mc_cfg(res, name, inv=["MCReopenInv", "TypeOK"], props=["MergePreserves"], timeout=1800)
        if not q:
            mc_cfg(res, name, inv=["MCReopenInv", "TypeOK"], props=["MergePreserves"], consts={"MaxTx": "= 3", "MaxOps": "= 3"}, simulate=(40000, 40), timeout=1800)
    # protocol grain: Merge.tla (scan / rewrite / remove per file, crash anywhere)
    merge_mc(res, "Merge(kv)", consts=None if q else {"MaxUser": "6"})
    merge_mc(res, "Merge+Lists(F-C15-1)", consts={"Sw": '{"Lists"}'}, inv=["MergePreserves"], expect="MergePreserves")
    merge_mc(res, "Merge+RewriteUncommitted", consts={"Sw": '{"RewriteUncommitted"}'}, inv=["MergePreserves"], expect="MergePreserves")
    merge_mc(res, "Merge+ActiveRemoved", consts={"Sw": '{"ActiveRemoved"}'}, inv=["WriteDurable"], expect="WriteDurable")
    fams = [("mergekv", ["-mode", "keyval"]), ("mergekv", ["-mode", "keyonly"]), ("mergeds", []), ("merge", [])]
    shards = fam_shards(fams, seed, 2 if q else 20, 3 if q else 4, 40 if q else 100) + mproto_shards(seed, q)
    rs = core.drive_and_validate(res, shards, core.dev_set(), "a read (in the process or after reopen) changed across Merge, or a write after Merge was lost",
                                 "histories with Merge at random quiescent points (twice in a row, with injected I/O faults, with too few files), more writes, shadow and real reopens")
    res.cov["samples"] = core.sample_events(rs[0]["trace"], 4, ops={"merge"})
    res.cov["distinct_nontrivial"] = res.extra.get("events_by_op", {}).get("merge", 0)
    res.cov["rule"] = ("non-trivial = Merge calls; each merge event carries the full observation of the process and of a reopened copy taken right "
                       "after the call, which TLC compares with the unchanged model state; the histories continue with writes, reads and reopens")
    res.assumptions += ["KV histories (both RAM modes) are judged to the end; histories with lists stop being judged at the first deviating Merge (known finding F-C15-1)"]
    return res.finish()


CHECKS = {"C21": c21, "C14": c14, "C17": c17, "C18": c18, "C02": c02, "C22": c22, "C20": c20, "C03": c03, "C19": c19, "C04": c04, "C10": c10, "C11": c11, "C16": c16, "C09": c09, "C15": c15, "C01": c01, "C05": c05, "C06": c06, "C07": c07, "C08": c08, "C12": c12, "C13": c13}


def selftest(tier, seed):
    """Demonstrates the binding: a corrupted recording must be rejected at the corrupted line."""
    core.build()
    work = core.scratch("verif-self-")
    out = os.path.join(work, "t.ndjson")
    core.drive(["-family", "failkv", "-mode", "keyval", "-seed", str(seed), "-hist", "2", "-steps", "30", "-proto",
                "-out", out, "-summary", os.path.join(work, "s.json"), "-tmp", work])
    ok = True

    def expect_reject(name, path, module, mutate, extra=""):
        nonlocal ok
        lines = open(path).read().splitlines()
        r0 = core.tlc_trace(path, dev=core.dev_set(), module=module, extra_consts=extra)
        idx, new = mutate([json.loads(x) for x in lines])
        bad = os.path.join(work, name + ".ndjson")
        with open(bad, "w") as f:
            f.write("\n".join(json.dumps(x) for x in new) + "\n")
        r1 = core.tlc_trace(bad, dev=core.dev_set(), module=module, extra_consts=extra)
        good = r0["accepted"] and not r1["accepted"] and r1["reached"] + 1 >= idx and r1["reached"] + 1 <= idx + 2
        print("selftest %-28s original accepted=%s, corrupted rejected at line %d (corruption at line %d): %s" % (
            name, r0["accepted"], r1["reached"] + 1, idx, "ok" if good else "FAILED"))
        ok = ok and good

    def flip_get(evs):
        i = [k for k, e in enumerate(evs) if e.get("op") == "get" and not e.get("err")][5]
        evs[i]["v"] = evs[i]["v"] + "~"
        return i + 1, evs

    def flip_err(evs):
        i = [k for k, e in enumerate(evs) if e.get("op") == "get" and e.get("err")][3]
        evs[i]["err"], evs[i]["v"] = False, "ghost"
        return i + 1, evs

    def drop_commit(evs):
        i = [k for k, e in enumerate(evs) if e.get("op") == "commit" and not e.get("err")][2]
        return i + 1, evs[:i] + evs[i + 1:]

    def drop_sync(evs):
        i = [k for k, e in enumerate(evs) if e.get("ev") == "sync" and not e.get("injected")][4]
        return i + 1, evs[:i] + evs[i + 1:]

    def move_mark(evs):
        i = [k for k, e in enumerate(evs) if e.get("ev") == "write" and not e.get("committed")][0]
        evs[i]["committed"] = True
        return i + 1, evs

    expect_reject("value-changed", out, "NutsTrace", flip_get)
    expect_reject("absent-key-served", out, "NutsTrace", flip_err)
    expect_reject("commit-event-removed", out, "NutsTrace", drop_commit)
    p1 = out + ".proto1"
    if os.path.exists(p1):
        expect_reject("sync-event-removed", p1, "CommitTrace", drop_sync, "  SyncOn = TRUE\n")
        expect_reject("commit-mark-on-first-record", p1, "CommitTrace", move_mark, "  SyncOn = TRUE\n")
    # Merge at protocol grain: a rewritten record dropped from the recording, and a removal recorded before its rewrite
    mp = os.path.join(work, "mp.ndjson")
    core.drive(["-family", "mergeproto", "-mode", "keyval", "-rw", "fileio", "-seed", str(seed), "-hist", "1", "-steps", "60",
                "-out", mp, "-summary", os.path.join(work, "s2.json"), "-tmp", work])

    def drop_rewritten(evs):
        i = [k for k, e in enumerate(evs) if e.get("op") == "mhalf" and len(e["recs"]) >= 1][0]
        evs[i]["recs"] = evs[i]["recs"][:-1]
        return i + 1, evs

    def remove_before_rewrite(evs):
        i = [k for k, e in enumerate(evs) if e.get("op") == "mhalf"][0]
        j = [k for k, e in enumerate(evs) if e.get("op") == "mremove" and k > i][0]
        evs = evs[:i] + [evs[j]] + evs[i:j] + evs[j + 1:]
        return i + 1, evs

    def stale_value_served(evs):
        i = [k for k, e in enumerate(evs) if e.get("op") == "obs" and e["so"]][2]
        evs[i]["so"][0]["v"] += "~"
        return i + 1, evs

    expect_reject("rewritten-record-missing", mp, "MergeTrace", drop_rewritten)
    expect_reject("file-removed-before-rewrite", mp, "MergeTrace", remove_before_rewrite)
    expect_reject("reopened-copy-differs", mp, "MergeTrace", stale_value_served)
    return 0 if ok else 2


def main(argv):
    ap = argparse.ArgumentParser()
    ap.add_argument("pid")
    ap.add_argument("--tier", default=os.environ.get("VERIF_TIER", "quick"))
    ap.add_argument("--seed", type=int, default=int(os.environ.get("VERIF_SEED", "1")))
    ap.add_argument("--replay")
    a = ap.parse_args(argv)
    if a.pid == "selftest":
        core.main_wrapper(lambda: selftest(a.tier, a.seed))
    if a.pid not in CHECKS:
        sys.stderr.write("unknown property %s\n" % a.pid)
        sys.exit(2)
    core.main_wrapper(lambda: CHECKS[a.pid](a.tier, a.seed))
