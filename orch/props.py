"""Per-property checks.  Each returns through core.Result.finish()."""
import argparse
import json
import os
import sys

import core
from core import Infra, Result


def read_cfg(name):
    with open(os.path.join(core.SPEC, "mc", name)) as f:
        return f.read()


def seeds(base, n):
    return [base * 1000 + i for i in range(n)]


# ---------------------------------------------------------------- C01

def c01(tier, seed):
    res = Result("C01", tier, seed)
    core.build()
    # 1. the design: bounded model of the API grain, KV universe
    cfg = read_cfg("NutsMC_kv.cfg")
    res.add_mc("NutsMC_kv", core.tlc_mc("NutsMC", cfg, timeout=900))
    # 2. code -> spec: random histories in both RAM modes x both RW modes
    nseed = 2 if tier == "quick" else 40
    hist, steps = (3, 40) if tier == "quick" else (4, 80)
    shards = []
    for mode in ("keyval", "keyonly"):
        for rw in ("fileio", "mmap"):
            for s in seeds(seed, nseed):
                shards.append(["-family", "kv", "-mode", mode, "-rw", rw, "-seed", str(s),
                               "-hist", str(hist), "-steps", str(steps)])
    rs = core.drive_and_validate(res, shards, core.dev_set(), "KV read result differs from the ordered-map model",
                                 "kv histories (Put/PutWithTimestamp/Delete, rotations, reopen) with full read battery")
    res.cov["samples"] = core.sample_events(rs[0]["trace"], 8, ops={"put", "del", "get", "range", "pscan", "getall"})
    reads = sum(res.extra.get("events_by_op", {}).get(k, 0) for k in ("get", "getall", "range", "pscan", "psscan"))
    res.cov["distinct_nontrivial"] = reads
    res.cov["rule"] = ("events = public call returns recorded from the real library; non-trivial = read calls "
                       "(get/getall/range/pscan/psscan) whose full result TLC compared with KVSpec on the model state")
    res.assumptions += ["values are printable ASCII; keys from a 13-key universe with shared prefixes",
                        "expiry instants are kept >= 500 s away from the wall clock"]
    return res.finish()


CHECKS = {"C01": c01}


def main(argv):
    ap = argparse.ArgumentParser()
    ap.add_argument("pid")
    ap.add_argument("--tier", default=os.environ.get("VERIF_TIER", "quick"))
    ap.add_argument("--seed", type=int, default=int(os.environ.get("VERIF_SEED", "1")))
    ap.add_argument("--replay")
    a = ap.parse_args(argv)
    if a.pid not in CHECKS:
        sys.stderr.write("unknown property %s\n" % a.pid)
        sys.exit(2)
    core.main_wrapper(lambda: CHECKS[a.pid](a.tier, a.seed))
