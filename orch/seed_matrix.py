"""Runs every seeded change in /verif/seeded against its owning check (quick tier) in scratch worktrees and
records the outcome in meta.json (detected_by / missed_by).  Usage: seed_matrix.py [name ...]"""
import json, os, subprocess, sys, concurrent.futures as cf
V = os.path.dirname(os.path.dirname(os.path.abspath(__file__)))
names = sys.argv[1:] or sorted(os.listdir(os.path.join(V, "seeded")))
def run(name):
    meta = json.load(open(os.path.join(V, "seeded", name, "meta.json")))
    pid = meta["property"]
    p = subprocess.run([os.path.join(V, "orch", "seed_run.sh"), name, pid, "quick"], capture_output=True, text=True)
    return name, pid, p.returncode, p.stdout
with cf.ThreadPoolExecutor(max_workers=4) as ex:
    for name, pid, rc, out in ex.map(run, names):
        mp = os.path.join(V, "seeded", name, "meta.json")
        meta = json.load(open(mp))
        verdict = {1: "detected", 0: "missed", 2: "infra"}.get(rc, "rc=%d" % rc)
        meta["check_runs"] = [r for r in meta.get("check_runs", []) if r.get("check") != pid] + [{"check": pid, "tier": "quick", "result": verdict}]
        meta["detected_by"] = sorted({r["check"] for r in meta["check_runs"] if r["result"] == "detected"})
        json.dump(meta, open(mp, "w"), indent=1)
        print(name, pid, verdict, flush=True)
