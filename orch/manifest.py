"""Regenerates MANIFEST.json from the registry below (run after adding a check)."""
import json, os, subprocess
V = os.path.dirname(os.path.dirname(os.path.abspath(__file__)))

def hooks_commits():
    out = subprocess.run(["git", "-C", "/repo", "log", "--format=%h %s"], capture_output=True, text=True).stdout
    return [l.split()[0] for l in out.splitlines() if "verification hook" in l.lower() or "verif hook" in l.lower()]

CHECKS = {
 "C05": dict(
   cat="model_checking", design="DESIGN.md section 6 C05",
   text="Specification -> code: TLC enumerates every reachable list (length <= 3 quick, <= 4 thorough, over values 'a', '', 'x|y') of the DsGen model and, for each, every call of RPush/LPush/LPop/RPop/LPeek/RPeek/LSize/LRange/LRem/LSet/LTrim with every index/count in -n-2..n+1; the replayer executes each emitted transition through transactions (pre-state, call, read-back, reopen) and directly on ds/list.List; the recordings, plus long random list histories, are validated by TLC against Nuts.tla/ListSpec.tla (exact Redis result and post-state for in-range calls, 'clamped or error' where the statement leaves the choice). The API-grain design is model-checked (NutsMC_ls.cfg).",
   note="Trusts TLC and the recording wrapper. Exhaustive only within the stated bound. Read-your-writes inside one transaction is judged under C13.",
   technique="TLC-enumerated transitions replayed into the code + TLA+ trace validation of the recordings"),
 "C06": dict(
   cat="model_checking", design="DESIGN.md section 6 C06",
   text="As C05 for sets: TLC enumerates every state of two sets over members {'a','b',''} (quick {'a',''}) and every call of SAdd/SRem/SPop/SMoveByOneBucket/SMoveByTwoBuckets/SIsMember/SAreMembers/SMembers/SCard/SHasKey/SDiff*/SUnion* (repeated and empty members included); each transition is executed through transactions (with read-back and reopen) and on ds/set.Set, and TLC validates the recordings and long random set histories against Nuts.tla/SetSpec.tla. Known deviations (SMove applied in memory only; the empty member cannot be removed) are modelled as named disjuncts and reported as KNOWN-FINDING; anything else is a VIOLATION.",
   note="Trusts TLC and the recording wrapper. Missing key and empty set are the same observation in the model, so errors are admitted wherever an operand set is empty.",
   technique="TLC-enumerated transitions replayed into the code + TLA+ trace validation of the recordings"),
 "C07": dict(
   cat="model_checking", design="DESIGN.md section 6 C07",
   text="As C05 for sorted sets: TLC enumerates every sorted set of <= 2 (thorough 3) members over keys {'', 'a', 'b'} and scores {-1,0,1} (ties) and every call of ZAdd/ZRem/ZRemRangeByRank/ZPopMax/ZPopMin and of every query (ZRangeByScore with every bound in -2..2, both orders, both exclusion flags, limits; ZRangeByRank/ZRank/ZRevRank with every rank in -n-2..n+2; ZScore/ZGetByKey/ZCount/ZCard/ZMembers/ZPeekMin/ZPeekMax); every transition is replayed under several skip-list level layouts (math/rand seeded per repetition) through transactions and on ds/zset.SortedSet; recordings and long random histories are validated by TLC against ZSetSpec.tla (order by (score,key); every returned node must be a member with its score and value).",
   note="Trusts TLC and the recording wrapper. Scores are small integers; NaN/Inf are outside the statement and only covered by C20.",
   technique="TLC-enumerated transitions replayed into the code + TLA+ trace validation of the recordings"),
 "C08": dict(
   cat="model_checking", design="DESIGN.md section 6 C08",
   text="Trace validation of mixed histories over KV, lists, sets and sorted sets (multi-operation transactions, operations that are no-ops at commit, rollbacks, rotations with 192-576 byte segments) with a real Close/Open every few transactions and shadow reopens (copy of the directory opened separately) in between; after each, a full observation of every bucket and structure is recorded and TLC accepts it only if it equals Replay(log) of Nuts.tla, which by the invariant ReopenInv equals what the process served before Close. In addition the same seeded read battery (every read API on every bucket, list, set and sorted-set key of the universe) runs right before every real Close and right after the following Open; each event after Open carries the digest of its twin before Close and TLC requires the two to be equal, result for result and error for error - unless process and log already disagreed at Close, which only a recorded deviation can cause. KV-only histories run in both RAM index modes. ReopenInv is model-checked on NutsMC (kv/list/set/zset universes), and the recorded deviations (SMove unlogged, duplicate tx ids) are shown to be counterexamples of it.",
   note="Trusts TLC and the recording wrapper. Sparse mode reopen is judged under C02. Known findings of C06/C07/C13 that also surface here are reported as KNOWN-FINDING lines.",
   technique="TLA+ trace validation with TLC (code -> spec, invariant ReopenInv) + bounded model checking of NutsMC"),
 "C12": dict(
   cat="model_checking", design="DESIGN.md section 6 C12",
   text="Trace validation of histories in which ~45% of the write transactions end without a successful commit: Rollback, an oversized entry at a random position, an injected write error (with or without a partial write) or sync error at a random file mutation of the commit (verifFS hook), a transaction function that returns an error to DB.Update, and read-only transactions that call mutating APIs; every method is also called on finished transactions. After each such transaction reads, full observations and shadow reopens are recorded, and TLC accepts them only if they equal the unchanged model state (actions Rollback/CommitFail/MutateRO/Finished of Nuts.tla; a failure after the last record was completely written is admitted as all-or-nothing). The action property NoEffect is model-checked on NutsMC and the SMove deviation is shown to violate it; Commit.tla's FaultAtomic (process and reopen serve exactly the returned transactions after any write / sync / rotation fault) is model-checked, with the pre-fix IndexDuringWrite and the known finding F-C12-4 (SyncFaultOnMark) as switches that must violate it; the recorded file mutations of every commit, including the injected faults, are validated against Commit.tla by CommitTrace.tla. One fate of a failing transaction is the fault sweep: the same transaction is re-committed with the j-th file mutation failing for j = 0, 1, ... until it goes through.",
   note="Trusts TLC, the recording wrapper and the fault injector (harness/internal/hx/fsobs.go, which checks at the end of each history that its image of the directory equals the real one).",
   technique="TLA+ trace validation with TLC (code -> spec) with fault injection through build-tag hooks + bounded model checking of NutsMC"),
 "C13": dict(
   cat="model_checking", design="DESIGN.md section 6 C13",
   text="Specification -> code: every pair (mutating call, any call) over the DsGen states of lists, sets and sorted sets is executed as one two-operation write transaction (sampled in the quick tier, all pairs in the thorough tier), plus random multi-operation transactions with reads and pops between the operations; TLC validates each recorded result against the transaction's own view (start state + its earlier operations, Nuts.tla tx.view) and the committed state against that view. SerialView/SerialResults are model-checked on NutsMC. The pinned tree evaluates reads inside a write transaction on the committed state only; that behaviour is the named deviation F-C13-1 and is reported as KNOWN-FINDING, anything else is a VIOLATION.",
   note="Trusts TLC and the recording wrapper. Because F-C13-1 is a recorded deviation, a new defect whose results coincide with 'evaluated on the committed state' is not distinguished from it.",
   technique="TLC-enumerated two-operation transactions replayed into the code + TLA+ trace validation"),
 "C09": dict(
   cat="model_checking", design="DESIGN.md section 6 C09",
   text="Trace validation in which every Open of a library-produced directory is an event whose only admitted outcome is success serving Replay(log) (action Open of Nuts.tla): histories whose entries fill a segment to exactly 0,1,2,41..47 bytes before its end (with empty values ending exactly at the segment end), under both RAM index modes x FileIO/MMap x both StartFileLoadingModes, with reads of never-written buckets, followed by Close/Open and shadow opens; plus the mixed (no-op operations), failing-commit and merge histories of C08/C12/C15, each with real and shadow reopens.",
   note="Trusts TLC and the recording wrapper. Directories produced by a crash (torn last record) are judged with the same rule by the crash-image checks C10/C11/C16; sparse-mode directories by C02.",
   technique="TLA+ trace validation with TLC (code -> spec): Open admitted only as success"),
 "C15": dict(
   cat="model_checking", design="DESIGN.md section 6 C15",
   text="Trace validation of histories with Merge at random quiescent points (also twice in a row, with fewer than two files, and with an I/O fault injected at a random file mutation inside Merge): each merge event carries the full observation of the running process and of a reopened copy taken right after the call, and TLC accepts it only if both equal the unchanged model state (mem and Replay(log)); the histories continue with writes, reads, shadow and real reopens, so writes after Merge are checked for durability. KV histories (TTL, deletes, failed transactions) run in both RAM modes and are judged to the end; set/sorted-set histories without SMove likewise; on histories with list records the pinned tree deviates (known finding F-C15-1) and the remainder of that history is not judged.",
   note="Trusts TLC and the recording wrapper. Merge.tla - data files with committed and left-over records, the index, Merge as scan / two-step rewrite / remove per file - is model-checked for MergePreserves and WriteDurable (switches Lists = F-C15-1, RewriteUncommitted and ActiveRemoved = two repaired defects must each produce a counterexample); it has no trace binding of its own, the code side is decided by the merge events of NutsTrace.",
   technique="TLA+ trace validation with TLC (code -> spec) with fault injection + bounded model checking of NutsMC"),
 "C10": dict(
   cat="model_checking", design="DESIGN.md section 6 C10",
   text="Crash images validated by TLC: a workload (multi-record transactions spanning rotations, rollbacks, an oversized-entry failure followed in the same millisecond by a committing transaction, reopen; all structures in HintKeyValAndRAMIdxMode, KV in both RAM modes; FileIO and MMap; SyncEnable on and off) runs with the verifFS hook recording every file mutation; the directory is then rebuilt for every mutation point and, for each write, with the write torn at record-field boundaries (quick: 5 boundaries, thorough: every header field, bucket, key, value-1); the real Open runs on each image in a child process and the recorded observation is a 'crash' event placed before the call it interrupted. TLC (NutsTrace!TrCrash) accepts it only if Open succeeded and served Replay(log) of the transactions that had returned, or that plus the in-flight transaction in full. In the `crashcont` families the history continues on the crashed directory: the real Open recovers it (TrCrashOpen), more transactions are committed - one of them does not fit into the active segment, so whatever the crash left at the tail is sealed into a file that is no longer the last - and the database is reopened again. The protocol itself is specified in Commit.tla (one action per file mutation of Tx.Commit, rotation, I/O faults, Crash, PowerLoss, Recover) and model-checked (CrashAtomic, RecoverTotal, TxIdUnique; the pre-fix behaviours DupIds and TornTailAborts are switches that must produce counterexamples); CommitTrace.tla validates the hook-recorded stream of data-file mutations of ordinary histories as behaviours of Commit.tla (record order and offsets, commit mark on the last record only, Sync after every record under SyncEnable, pairwise different stored tx ids).",
   note="Trusts TLC, the recording wrapper and the image builder (the observer's final image is compared with the real directory after every workload; an unhooked mutation site is an infrastructure error). A process crash keeps every completed write; sparse mode images are judged under C02.",
   technique="TLA+ trace validation with TLC of crash images built from hook-recorded file mutations"),
 "C11": dict(
   cat="model_checking", design="DESIGN.md section 6 C11",
   text="As C10 with SyncEnable=true and the power-loss image rule: at every mutation point each file reverts to its content at its last sync; the unsynced writes after it are dropped, or the first is kept torn at a record-field boundary; unsynced file creations and removals are kept or undone. The real Open runs on each image; TLC accepts only success serving the returned transactions (plus possibly the in-flight one in full). Commit.tla is model-checked with PowerLoss (invariant Durable; the switch SyncOncePerTx must violate it) and CommitTrace.tla validates that every record of every recorded commit is followed by a Sync of its file before the next record or the return.",
   note="Assumes, as the statement does, that a sync of a file also makes its directory entry durable. Out-of-order persistence of several unsynced writes is not generated (with SyncEnable the code never has more than one unsynced data write). Trusts TLC, the recording wrapper and the image builder.",
   technique="TLA+ trace validation with TLC of power-loss images built from hook-recorded file mutations"),
 "C16": dict(
   cat="model_checking", design="DESIGN.md section 6 C16",
   text="As C10 restricted to the file mutations inside Merge (creation of rewrite files, rewritten records, removals, torn writes): for every such point of every generated pre-merge history the directory is rebuilt, the real Open runs on it (one workload has more than ten data files, so that file ids of different lengths coexist), and TLC accepts only success serving exactly Replay(log) - the contents before Merge. Merge.tla (data files, index, scan / two-step rewrite / remove per file, Crash anywhere) is model-checked for MergeCrashSafe; the switches Lists (= the known finding) and DelayedRewrite must violate it. KV histories (both RAM modes, FileIO/MMap) are judged strictly; with list or sorted-set records the pinned tree deviates (known finding F-C16-1: operation records are replayed twice or in a different order).",
   note="Trusts TLC, the recording wrapper and the image builder.",
   technique="TLA+ trace validation with TLC of crash images built from hook-recorded file mutations inside Merge"),
 "C04": dict(
   cat="model_checking", design="DESIGN.md section 6 C04",
   text="Trace validation of histories over adversarial bucket names ('a', 'ab', '', 'a|b', 'b' - prefixes of each other and of keys, so that bucket+key concatenations coincide, the empty name, a name containing the list separator), the same keys stored in several buckets with different values, for KV, lists, sets and sorted sets (KV also in HintKeyAndRAMIdxMode); after every transaction a full observation of every bucket of every structure is recorded and TLC accepts it only if it equals the model, in which a commit changes only the buckets its records name. The action property BucketIsolation is model-checked on NutsMC.",
   note="Trusts TLC and the recording wrapper. Sparse index mode (where the pinned tree keys its active index by the concatenation bucket+key) is not yet covered by this check.",
   technique="TLA+ trace validation with TLC (code -> spec) + bounded model checking of the action property BucketIsolation"),
 "C19": dict(
   cat="model_checking", design="DESIGN.md section 6 C19",
   text="Product traces: the same seeded history (KV with TTL/deletes/failed transactions/merges in both RAM index modes; all structures in HintKeyValAndRAMIdxMode; reopens and shadow reopens) is executed under every combination of RWMode x StartFileLoadingMode x SyncEnable (x index mode): 16 resp. 8 configurations. Every event carries one digest of (operation, arguments, results) per configuration; TLC requires all digests to be equal and the first configuration's event to be a step of Nuts.tla, whose actions have no option-dependent behaviour.",
   note="Digests are computed by the driver; equality is judged by TLC. SPop is excluded from product histories because its choice is legitimately nondeterministic. Sparse mode takes part in single-bucket key/value histories (24 configurations); a scan that finds nothing may report it as an error or as an empty result (one observation).",
   technique="TLA+ trace validation with TLC of product traces over all storage-option combinations"),
 "C03": dict(
   cat="model_checking", design="DESIGN.md section 6 C03",
   text="Specification -> code, exhaustive: TLC enumerates every status assignment absent/live/deleted/expired of a key universe with nested prefixes (a, ab, abc, b [, bc]: 256 states quick, 1024 thorough) and, for each, every PrefixScan(prefix, offset, limit) with prefix in {'', a, ab, b, c}, offset 0..n+1, limit -1..n+1 and every PrefixSearchScan(prefix, regexp, 0, limit) over 4 regular expressions (89 600 queries quick); the replayer builds each state in a fresh bucket (puts, deletes, expired PutWithTimestamp) in HintKeyValAndRAMIdxMode and HintKeyAndRAMIdxMode and runs the queries; TLC validates every recorded page against KVSpec!PageOK (live keys with the prefix, ascending, after skipping offset, at most limit) on the state rebuilt from the recorded writes. Random histories with paged scans over a 41-key universe (several B+ tree leaves, rotations, reopen) are validated the same way.",
   note="Trusts TLC and the recording wrapper; the regular-expression predicate is computed with Go's regexp and passed as a match set. Sparse index mode: the same enumeration is replayed with 128-byte segments (keys spread over one to three segments) and the `page` family runs in it too. For limit 0 the statement fixes no count and any prefix of the remaining keys is admitted.",
   technique="TLC-enumerated (state, query) pairs replayed into the code + TLA+ trace validation of the recordings"),
 "C20": dict(
   cat="model_checking", design="DESIGN.md section 6 C20",
   text="Specification -> code, exhaustive over the enumerated domain: ApiTotal.tla lists every exported method of Tx (57, including the on-disk lookup helpers) and DB (Update, View, Begin, Merge, Backup, Close) with its parameter kinds, and TLC emits one call per method x lifecycle state (writable / read-only transaction, committed, rolled back, the same after the database was closed; database open / closed) x tuple of boundary-heavy argument tokens ((bucket,key) pairs with nil, empty, separator-containing and missing names; ints MinInt64, -5..5, MaxInt64; NaN and infinite scores; invalid regexp; nil and odd option structs; extreme TTL/timestamps): 5 900 calls quick, 12 494 thorough. The replayer executes each on a preloaded multi-file database under recover() and a watchdog, follows every call in a writable transaction by Commit, and records outcome classes; TLC (ApiTotalTrace) accepts a call iff it returned, the Commit returned, and calls on finished transactions or a closed database returned an error. Panics recorded by the random drivers (fail, merge, intx families) count too.",
   note="Trusts TLC and the replayer's recover()/watchdog. Open() with odd Options is outside the statement (methods of DB and Tx).",
   technique="TLC-enumerated calls (ApiTotal.tla) replayed into the code + TLA+ trace validation of the outcome classes"),
 "C22": dict(
   cat="model_checking", design="DESIGN.md section 6 C22",
   text="Specification -> code, exhaustive: ModeCompat.tla enumerates all 54 combinations (index mode that created the directory) x (directory state: absent, freshly opened, written over several segments, merged, crashed in the middle of a commit, crashed right after the creation of a new data file - the last two built as crash images from hook-recorded file mutations) x (index mode used to reopen); the replayer builds each with FileIO and MMap and several generated contents, opens it with the reopen mode and records the error flag, a digest of the directory tree before/after, and a digest of the full observation under the creating mode (on a copy) and under the reopen mode. TLC (ModeCompat!Admitted) requires: data of the other class -> error and identical directory digest; RAM <-> RAM on key/value data -> success and identical observation digest; same mode -> success and identical observation; no data yet -> unconstrained.",
   note="Digests are computed by the replayer (sha1); equality is judged by TLC. Trusts TLC and the replayer.",
   technique="TLC-enumerated combinations (ModeCompat.tla) replayed into the code + TLA+ trace validation"),
 "C02": dict(
   cat="model_checking", design="DESIGN.md section 6 C02",
   text="Trace validation of single-bucket Put/PutWithTimestamp/Delete histories in HintBPTSparseIdxMode (segments of 128-512 bytes so that most keys live in sealed segments reached through the on-disk B+ tree and root-index files; FileIO and MMap; Close/Open every ~12 transactions; a 41-key universe with paged scans in the `page` family): after every transaction Get of the key universe, GetAll, RangeScans with bounds straddling stored keys, PrefixScans and PrefixSearchScans are recorded, plus full observations after every reopen, and TLC accepts them only if they equal the ordered-map-with-TTL model (Nuts.tla/KVSpec.tla), exactly as for the RAM modes in C01. (The three scan defects the first version of this check recorded as a known finding - overlap predicate, ScanNoLimit never reading sealed segments, per-segment paging - are repaired; see known_findings.json, fixed F-C02-1.)",
   note="Single-bucket histories only, as the statement says. Multi-bucket sparse histories, failed commits in sparse mode and sparse crash images showed further defects in probes (DESIGN.md 11.3) and are outside this check. Trusts TLC and the recording wrapper.",
   technique="TLA+ trace validation with TLC (code -> spec) + bounded model checking of Nuts.tla"),
 "C14": dict(
   cat="model_checking", design="DESIGN.md section 6 C14",
   text="(1) Lock.tla/LockCore.tla - goroutines, one writer-preferring RWMutex per database, two-step transactions, a Merge process, an Eraser-style lockset monitor - is model-checked (2 databases, 2 writers + 2 readers x 2-3 transactions + merger; 1 database with a Backup reader): Mutex, SnapshotStable, LockSet, NoLostUpdate, termination; the two repaired races (package-level queue, in-place sort of the shared root-index slice) are shown to be LockSet counterexamples. (2) Code -> spec: 4-16 goroutines run mixed View/Update transactions on 1-3 databases in every index mode with yields injected at the hook gates, race-instrumented. The lock hook (called under db.mu) counts writer acquisitions, which places every transaction in a serial order per database; that order is written out and TLC validates it as a sequential history of Nuts.tla: every read of a read-only transaction is taken twice and both must equal the same snapshot, every value is the last committed one, and end/begin ticks must respect real time. (3) The raw stream of lock and shared-access events is validated by LockTrace.tla against the RWMutex guards and the lockset monitor; race-detector reports are appended to that stream as events no action admits. A run that does not finish within the watchdog period is recorded as a deadlock event.",
   note="Exhaustive interleavings only in the model; on the code the schedules are those the Go scheduler produces under injected yields. Trusts TLC, the hooks (verifLock is emitted while the lock is held) and the recording wrapper. Lists/sets/sorted sets are not part of the concurrent histories.",
   technique="bounded model checking of Lock.tla + TLA+ trace validation of linearised concurrent histories (NutsTrace) and of the lock/access event stream (LockTrace), race detector as an event source"),
 "C17": dict(
   cat="model_checking", design="DESIGN.md section 6 C17",
   text="As C14 with a goroutine that calls Merge in a loop next to 3-8 reading and writing goroutines (both RAM index modes, race-instrumented), plus a gate-forced schedule (verifGate) in which an update commits between Merge's scan of a segment and its rewrite. TLC validates the linearised results and the final/reopened observation against the merge-free serial history, and the lock/access stream plus race reports against LockCore. Lock.tla is model-checked with Merge as one write transaction (holds) and code-shaped (switch MergeUnlocked: TLC exhibits both the lockset violation and the lost update). On the pinned tree both happen: they are the known findings F-C17-1 and F-C17-2; any other rejection is a VIOLATION.",
   note="Because Merge is unsynchronised on the pinned tree, a history is judged only up to its first read that the merge race changed; races whose stacks do not involve Merge are not excused.",
   technique="bounded model checking of Lock.tla + TLA+ trace validation of linearised concurrent histories and of the lock/access event stream, gate-forced schedule, race detector as an event source"),
 "C18": dict(
   cat="model_checking", design="DESIGN.md section 6 C18",
   text="A goroutine calls Backup(dir) in a loop while 3-8 goroutines write and read (both RAM index modes and sparse mode, FileIO and MMap, 1-2 databases, race-instrumented). A gate hook inside Backup's read transaction records how many writers had acquired the lock when the copy started; the copy is opened with the same options and fully observed; the backup event is placed at that point of the linearised history and TLC (NutsTrace!TrCopyObs) accepts it iff Open succeeded and the observation equals Replay(log) there - the state committed when the backup's read transaction started. Quiescent backups are taken in the `bigval` family (32-64 KiB segments, block-sized values made of zero and 0xFF runs) and judged the same way. Lock.tla (Backup as a two-step reader, SnapshotStable) is model-checked.",
   note="Trusts TLC, the hooks and the recording wrapper. Backups taken while Merge runs are not generated (Merge is unsynchronised, C17).",
   technique="TLA+ trace validation of linearised concurrent histories with Backup events + bounded model checking of Lock.tla"),
 "C21": dict(
   cat="model_checking", design="DESIGN.md section 6 C21",
   text="Specification -> code, exhaustive over the enumerated domain: Codec.tla enumerates record templates (data entries: every combination of bucket/key/value size in {0,1,7} plus flag, status, structure code, timestamp, TTL and tx id varied over boundary values one - thorough: two - at a time; sparse root-index records; bucket metadata) and, for each, the unmutated record, every single-bit flip of its stored bytes and every truncation (22 255 reads quick). The replayer builds each record with the library's encoder, stores it through the library's writer (DataFile with FileIO and MMap, BPTreeRootIdx.Persistence), alters the stored bytes, reads it back through DataFile.ReadAt / ReadBPTreeRootIdxAt / ReadBucketMeta and records the fields written and the fields read. TLC (Codec!Admitted) accepts: unmutated -> a record with exactly the written fields; mutated -> an error, 'absent', or a record with exactly the written fields.",
   note="The family's weak spot (DESIGN.md): TLA+ contributes the complete enumeration and the acceptance rule, not the byte layout or CRC arithmetic. The quick tier skips flips in the two high-order bytes of size fields (each makes the reader allocate up to 4 GB); the thorough tier includes them. Multi-bit corruption is not enumerated.",
   technique="TLC-enumerated (template, mutation) pairs (Codec.tla) replayed into the code + TLA+ trace validation of written vs. read fields"),
 "C01": dict(
   cat="model_checking", design="DESIGN.md section 6 C01",
   text="Trace validation: seeded random KV histories (multi-bucket, TTL on both sides of expiry, segments of 128-512 bytes so nearly every transaction rotates, reopen) are executed on the real library in HintKeyValAndRAMIdxMode and HintKeyAndRAMIdxMode x FileIO and MMap, every call is recorded, and TLC accepts the trace only if every Get/GetAll/RangeScan/PrefixScan/PrefixSearchScan result equals the KVSpec ordered-map-with-TTL result on the specification state (Nuts.tla). Further families: `ttl` (keys expiring 1, 2 and 3 seconds from now, read a little after the start of every following second, so that the read in the very second in which now = timestamp + TTL is judged), `bigval` (32-64 KiB segments, values of 0..12 288 bytes made of zero / 0xFF runs, with merges, backups and reopens), and `bptree`, a component check of the exported B+ tree with ~110 keys (several levels of splits) against the same KVSpec operators. Half of the transactions go through DB.Update / DB.View. The API-grain design is model-checked exhaustively for a small universe (NutsMC_kv.cfg).",
   note="Trusts TLC, the Json module, and the recording wrapper (harness/internal/hx). Bounded universe: 13 keys, 3 buckets, printable-ASCII values (long values are recorded as length + digest). Outside the `ttl` family expiry instants are kept away from the wall clock; the regular-expression predicate is computed by Go's regexp in the driver and passed as a match set.",
   technique="TLA+ trace validation with TLC (code -> spec) + bounded model checking of Nuts.tla"),
}

def main():
    m = {
     "version": 1,
     "setup_cmd": "./setup.sh",
     "hooks": {
      "guard": "verif",
      "enable": "go build -tags verif (orch/build.sh copies /verif/harness to .build, points its go.mod replace at /repo and builds with -tags verif on every check)",
      "baseline_off_cmd": "cd /repo && GOFLAGS=-mod=mod GOPROXY=off go test -vet=off -count=1 -timeout 25m ./...",
      "source_commits": hooks_commits(),
      "add_only": True,
     },
     "engines": [
      {"name": "tlc", "path": "/opt/veriftools/tla/tla2tools.jar", "serves_properties": sorted(CHECKS), "kind_free_text": "TLC 1.8 explicit-state model checker: bounded model checking of the specification, transition/behaviour emission, trace validation"},
      {"name": "harness", "path": "/verif/harness", "serves_properties": sorted(CHECKS), "kind_free_text": "Go drivers/replayers built against /repo with -tags verif; they drive and record, never judge"},
     ],
     "checks": [],
     "not_applicable": [],
     "notes": "All verdicts come from TLC evaluating the TLA+ specification in /verif/spec against events recorded from the real library; see DESIGN.md.",
    }
    for pid in sorted(CHECKS):
        c = CHECKS[pid]
        m["checks"].append({
          "property_id": pid,
          "quick_cmd": "./check %s --tier quick" % pid,
          "thorough_cmd": "./check %s --tier thorough" % pid,
          "evidence_file": "/verif/evidence/%s.json" % pid,
          "replay_cmd_template": "./check %s --replay {path}" % pid,
          "engine": "tlc",
          "level_claimed": {"category": c["cat"], "text": c["text"], "design_ref": c["design"]},
          "level_note": c["note"],
          "technique": c["technique"],
        })
    props = [json.loads(l)["id"] for l in open(os.path.join(V, "properties.jsonl"))]
    for pid in props:
        if pid not in CHECKS:
            m["not_applicable"].append({"property_id": pid, "reason": "check not built yet (work in progress; see DESIGN.md section 10)"})
    with open(os.path.join(V, "MANIFEST.json"), "w") as f:
        json.dump(m, f, indent=1)

if __name__ == "__main__":
    main()
