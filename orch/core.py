"""Orchestration for the nutsdb TLA+ verification framework (stdlib only).

Builds the Go harness against $VERIF_REPO, runs TLC (model checking, transition
emission, trace validation), collects verdicts and writes evidence files.

Exit codes of every check: 0 property held on everything explored (possibly
with KNOWN-FINDING lines), 1 a VIOLATION recorded from the real code, 2 an
infrastructure problem (never a verdict about the code).
"""
import atexit
import concurrent.futures as cf
import json
import os
import re
import shutil
import subprocess
import sys
import tempfile
import time

V = os.path.dirname(os.path.dirname(os.path.abspath(__file__)))
SPEC = os.path.join(V, "spec")
REPO = os.environ.get("VERIF_REPO", "/repo")
BUILD = os.environ.get("VERIF_BUILD", os.path.join(V, ".build"))
BID = str(os.getpid())
BIN = os.path.join(BUILD, "bin." + BID)
TLA_CP = "/opt/veriftools/tla/tla2tools.jar:/opt/veriftools/tla/CommunityModules-deps.jar"
NCPU = os.cpu_count() or 4


class Infra(Exception):
    """Something that is not evidence about the code (exit 2)."""


_scratch = []


def scratch(prefix="verif-"):
    base = os.environ.get("TMPDIR", "/tmp")
    d = tempfile.mkdtemp(prefix=prefix, dir=base)
    _scratch.append(d)
    return d


def _cleanup():
    for d in (BIN, os.path.join(BUILD, "harness." + BID)):
        shutil.rmtree(d, ignore_errors=True)
    for d in _scratch:
        shutil.rmtree(d, ignore_errors=True)


atexit.register(_cleanup)


def goenv():
    e = dict(os.environ)
    e.update(GOFLAGS="-mod=mod", GOPROXY="off", GOSUMDB="off", GOTOOLCHAIN="local")
    return e


def build(race=False):
    """Rebuild the harness from the repository's current working tree."""
    t = time.time()
    env = goenv()
    env["VERIF_REPO"] = REPO
    env["VERIF_BUILD"] = BUILD
    env["VERIF_BUILD_ID"] = BID
    if race:
        env["VERIF_RACE"] = "1"
    p = subprocess.run([os.path.join(V, "orch", "build.sh")], env=env, capture_output=True, text=True)
    if p.returncode != 0:
        raise Infra("harness build failed:\n" + p.stdout + p.stderr)
    return time.time() - t


def run(cmd, timeout=600, cwd=None, env=None):
    try:
        p = subprocess.run(cmd, cwd=cwd, env=env, capture_output=True, text=True, timeout=timeout)
    except subprocess.TimeoutExpired:
        raise Infra("timeout: " + " ".join(cmd))
    return p


def spec_dir():
    """A scratch copy of the specification (TLC litters its working directory)."""
    d = scratch("verif-spec-")
    for f in os.listdir(SPEC):
        if f.endswith(".tla"):
            shutil.copy(os.path.join(SPEC, f), d)
    return d


def java_tlc(args, cwd, timeout, heap="2g", extra_java=()):
    cmd = ["java", "-XX:+UseParallelGC", "-Xmx" + heap, "-Xss64m"] + list(extra_java) + ["-cp", TLA_CP, "tlc2.TLC"] + args
    try:
        p = subprocess.run(cmd, cwd=cwd, capture_output=True, text=True, timeout=timeout)
    except subprocess.TimeoutExpired:
        raise Infra("TLC timeout after %ss: %s" % (timeout, " ".join(args)))
    return p


RE_STATES = re.compile(r"(\d+) states generated, (\d+) distinct states found, (\d+) states left on queue")


def parse_states(out):
    m = None
    for m in RE_STATES.finditer(out):
        pass
    if not m:
        return None
    return {"generated": int(m.group(1)), "distinct": int(m.group(2)), "queue": int(m.group(3))}


def tlc_mc(module, cfg_text, consts=None, workers=None, timeout=600, heap="6g", coverage=False, sdir=None, simulate=None):
    """Model-check `module` with the given cfg text.  Returns a dict with
    ok (no error reported), states, transitions, violated (name or None), out."""
    d = sdir or spec_dir()
    cfgp = os.path.join(d, module + "_run.cfg")
    with open(cfgp, "w") as f:
        f.write(cfg_text)
    md = os.path.join(d, "md-%d" % int(time.time() * 1e6))
    args = ["-workers", str(workers or min(NCPU, 8)), "-metadir", md, "-config", cfgp]
    if coverage:
        args += ["-coverage", "1"]
    if simulate:    # (num behaviours per worker, depth): random walks instead of exhaustive search
        args += ["-simulate", "num=%d" % simulate[0], "-depth", str(simulate[1])]
    args += [module + ".tla"]
    t = time.time()
    p = java_tlc(args, d, timeout, heap=heap)
    out = p.stdout + p.stderr
    st = parse_states(out)
    if simulate and st is None:
        ms = re.search(r"The number of states generated: (\d+)", out)
        mt = None
        for mt in re.finditer(r"(\d+) traces generated", out):
            pass
        if ms:
            st = {"generated": int(ms.group(1)), "distinct": 0, "queue": 0, "traces": int(mt.group(1)) if mt else 0}
    violated = None
    m = re.search(r"Error: Invariant (\S+) is violated", out)
    if m:
        violated = m.group(1)
    m2 = re.search(r"Error: Action property (\S+) is violated", out)
    if m2:
        violated = m2.group(1)
    m3 = re.search(r"Error: Temporal properties were violated", out)
    if m3:
        violated = violated or "temporal"
    if "Deadlock reached" in out:
        violated = violated or "deadlock"
    err = ("Error:" in out) and not violated
    shutil.rmtree(md, ignore_errors=True)
    return {"ok": (st is not None) and not err and not violated, "states": st, "violated": violated,
            "error": err, "out": out, "wall_s": round(time.time() - t, 2), "rc": p.returncode}


RE_REACHED = re.compile(r'<<"TRACE_REACHED", (\d+), "OF", (\d+)>>')


def parse_tla_set_of_notes(out):
    """Parse <<"TRACE_NOTES", {<<line, {"F-..", ...}>>, ...}>> into [(line, [ids])]."""
    notes = []
    for m in re.finditer(r'<<\s*"TRACE_NOTES",\s*(\{.*?\})\s*>>\n', out, re.S):
        body = m.group(1)
        for n in re.finditer(r'<<\s*(\d+),\s*\{([^}]*)\}\s*>>', body):
            ids = re.findall(r'"([^"]+)"', n.group(2))
            notes.append((int(n.group(1)), ids))
    # keep the richest print (the last state of the accepted behaviour prints everything)
    uniq = {}
    for line, ids in notes:
        uniq.setdefault(line, set()).update(ids)
    return sorted((k, sorted(v)) for k, v in uniq.items())


MODULE_CONSTS = {"ApiTotalTrace": "  Full = TRUE\n", "LockTrace": "  DB <- TraceDBs\n",
                 "CodecTrace": "  Pairs = FALSE\n  HugeSizes = FALSE\n",
                 "MergeTrace": "  Keys <- TKeys\n  MaxUser = 0\n  Cap = 1\n  Sw = {}\n",
                 "CommitTrace": "  MaxTx = 3\n  MaxRecs = 200\n  Cap = 100000\n  Sw = {\"SyncFaultOnMark\"}\n"}


def tlc_trace(trace_path, dev=(), module="NutsTrace", diag_line=0, timeout=3600, heap="3g", sdir=None, extra_consts=""):
    """Validate one ndjson trace.  Returns dict(accepted, reached, total, notes, out)."""
    d = sdir or spec_dir()
    cfgp = os.path.join(d, "tr-%d.cfg" % (int(time.time() * 1e6) % 10**12))
    devs = "{" + ", ".join('"%s"' % x for x in sorted(dev)) + "}"
    with open(cfgp, "w") as f:
        f.write("SPECIFICATION TraceSpec\nCONSTRAINT HighWater\nPOSTCONDITION TraceAccepted\nCHECK_DEADLOCK FALSE\n"
                "CONSTANTS\n  Dev = %s\n  TraceFile = \"%s\"\n  DiagLine = %d\n%s" % (devs, trace_path, diag_line, extra_consts + MODULE_CONSTS.get(module, "")))
    md = cfgp + ".md"
    t = time.time()
    p = java_tlc(["-workers", "1", "-metadir", md, "-config", cfgp, module + ".tla"], d, timeout, heap=heap)
    out = p.stdout + p.stderr
    shutil.rmtree(md, ignore_errors=True)
    m = RE_REACHED.search(out)
    if not m:
        raise Infra("TLC trace validation produced no verdict:\n" + out[-3000:])
    reached, total = int(m.group(1)), int(m.group(2))
    accepted = reached == total and "Postcondition TraceAccepted" not in out
    # a TLC evaluation error (not a rejection) is an infrastructure problem
    if "Error:" in out and "Postcondition TraceAccepted" not in out:
        raise Infra("TLC error during trace validation:\n" + out[-4000:])
    diag = None
    md_ = re.search(r'<<"DIAG", (\d+), (.*?)>>\n(?=<<"|\S)', out, re.S)
    if md_:
        diag = md_.group(2)[:6000]
    return {"accepted": accepted, "reached": reached, "total": total,
            "notes": parse_tla_set_of_notes(out), "out": out, "diag": diag, "wall_s": round(time.time() - t, 2),
            "states": parse_states(out)}


def read_lines(path, a, b):
    """Lines a..b (1-based, inclusive) of a file, parsed as JSON."""
    out = []
    with open(path) as f:
        for i, line in enumerate(f, 1):
            if i > b:
                break
            if i >= a:
                out.append(json.loads(line))
    return out


def history_bounds(path, line):
    """(first, last) line numbers of the history (reset .. next reset) containing `line`."""
    first, last, n = 1, None, 0
    with open(path) as f:
        for i, s in enumerate(f, 1):
            n = i
            if '"op":"reset"' in s:
                if i <= line:
                    first = i
                elif last is None:
                    last = i - 1
    return first, (last or n)


def load_known():
    p = os.path.join(V, "known_findings.json")
    if not os.path.exists(p):
        return {"known": [], "fixed": []}
    with open(p) as f:
        return json.load(f)


def known_for(pid):
    return [k for k in load_known().get("known", []) if k["property"] == pid]


def dev_set(pids=None):
    """Deviation ids enabled for trace validation: every recorded known finding."""
    return sorted({k["id"] for k in load_known().get("known", [])})


class Result:
    """Accumulates what one check run covered and found."""

    def __init__(self, pid, tier, seed, level="model_checking"):
        self.pid, self.tier, self.seed, self.level = pid, tier, seed, level
        self.t0 = time.time()
        self.violations = []       # dicts with replay path
        self.known = {}            # finding id -> text
        self.cov = {"states": 0, "transitions": 0, "traces_validated_against_impl": 0, "samples": [],
                    "evaluations": 0, "distinct_nontrivial": 0, "rule": "", "exhaustive": False}
        self.assumptions = []
        self.extra = {}

    def add_mc(self, name, r, expect_violation=None):
        """Record a model-checking run; r from tlc_mc."""
        st = r["states"] or {"generated": 0, "distinct": 0}
        if expect_violation is None:
            self.cov["states"] += st["distinct"]
            self.cov["transitions"] += st["generated"]
        self.extra.setdefault("model_checking", []).append(
            {"cfg": name, "distinct_states": st["distinct"], "states_generated": st["generated"],
             "violated": r["violated"], "expected_violation": expect_violation, "wall_s": r["wall_s"]})
        if expect_violation is None:
            if not r["ok"]:
                raise Infra("model checking %s failed (violated=%s):\n%s" % (name, r["violated"], r["out"][-3000:]))
        else:
            exp = expect_violation if isinstance(expect_violation, (set, list, tuple)) else [expect_violation]
            if r["violated"] not in exp:
                raise Infra("model checking %s: expected a counterexample to %s, got %s\n%s" % (
                    name, expect_violation, r["violated"], r["out"][-3000:]))

    def violation(self, what, replay_obj):
        rdir = os.path.join(V, "replays") if REPO == "/repo" else os.path.join(BUILD, "replays")
        os.makedirs(rdir, exist_ok=True)
        n = len(self.violations) + 1
        path = os.path.join(rdir, "%s-%d-%d.json" % (self.pid, self.seed, n))
        replay_obj = dict(replay_obj)
        replay_obj.update({"property": self.pid, "seed": self.seed, "tier": self.tier, "what": what})
        with open(path, "w") as f:
            json.dump(replay_obj, f, indent=1, default=str)
        self.violations.append({"what": what, "replay": path})
        print("VIOLATION property=%s replay=%s" % (self.pid, path))
        sys.stdout.flush()

    def known_finding(self, fid, text):
        if fid not in self.known:
            self.known[fid] = text
            print("KNOWN-FINDING: property=%s %s %s" % (self.pid, fid, text))
            sys.stdout.flush()

    def finish(self):
        ev = {
            "property_id": self.pid, "tier": self.tier, "seed": self.seed, "level": self.level,
            "coverage": dict(self.cov, **self.extra),
            "assumptions": self.assumptions,
            "wall_s": round(time.time() - self.t0, 2),
            "violations": len(self.violations),
        }
        ev["coverage"]["known_findings_seen"] = sorted(self.known)
        # evidence of runs against a scratch copy of the repository (mutant
        # self-tests) must not overwrite the evidence of /repo
        edir = os.environ.get("VERIF_EVIDENCE_DIR") or (os.path.join(V, "evidence") if REPO == "/repo" else os.path.join(BUILD, "evidence"))
        os.makedirs(edir, exist_ok=True)
        tmp = os.path.join(edir, self.pid + ".json.tmp")
        with open(tmp, "w") as f:
            json.dump(ev, f, indent=1, default=str)
        os.replace(tmp, os.path.join(edir, self.pid + ".json"))
        return 1 if self.violations else 0


def drive(args, timeout=2400, binary="drive", env=None):
    p = run([os.path.join(BIN, binary)] + args, timeout=timeout, env=env)
    if p.returncode != 0:
        raise Infra("driver failed (rc=%d): %s\n%s" % (p.returncode, " ".join(args), (p.stdout + p.stderr)[-3000:]))
    return p


def drive_and_validate(res, shards, dev, what, family_desc, rerun=True):
    """shards: list of driver arg lists (without -out/-summary/-tmp).  Each is
    run, its trace validated by TLC (NutsTrace).  Rejections are re-executed
    once (sequential drivers are deterministic given the seed) before a
    VIOLATION is issued.  Returns list of per-shard summaries."""
    work = scratch("verif-run-")
    sdir = spec_dir()

    def validate(path, module, mydev):
        # pass 1: the ideal specification (no deviation enabled).  Only if it
        # rejects: pass 2 with the recorded known findings enabled.
        r = tlc_trace(path, dev=(), sdir=sdir, module=module)
        r["module"] = module
        r["ideal_accepted"] = r["accepted"]
        if not r["accepted"] and mydev:
            r1 = r
            r = tlc_trace(path, dev=mydev, sdir=sdir, module=module)
            r["module"] = module
            r["ideal_accepted"] = False
            r["ideal_reached"] = r1["reached"]
        return r

    def one(i, args, attempt=0):
        out = os.path.join(work, "t%d-%d.ndjson" % (i, attempt))
        summ = os.path.join(work, "s%d-%d.json" % (i, attempt))
        tmp = os.path.join(work, "d%d-%d" % (i, attempt))
        os.makedirs(tmp, exist_ok=True)
        binary, args_, mydev, module = "drive", list(args), dev, "NutsTrace"
        conc = False
        proto = False
        while args_ and args_[0][0] in "@#%":
            if args_[0].startswith("@"):
                binary = args_[0][1:]
            elif args_[0].startswith("%conc"):   # concurrent run: race-instrumented binary, lock stream, no re-execution
                conc = True
                binary = "drive-race"
            elif args_[0].startswith("%proto"):  # also record and validate the protocol-grain streams (CommitTrace)
                proto = True
            elif args_[0].startswith("%"):   # "%mod=<trace module>"
                module = args_[0][5:]
            else:   # "#dev=F-a,F-b": the deviations that apply to this kind of trace
                mydev = [x for x in args_[0][5:].split(",") if x and x in dev]
            args_ = args_[1:]
        env = None
        racelog = os.path.join(work, "race%d-%d" % (i, attempt))
        if conc:
            env = dict(os.environ, GORACE="log_path=%s halt_on_error=0 exitcode=0 history_size=2" % racelog)
        drive(args_ + (["-proto"] if proto else []) + ["-out", out, "-summary", summ, "-tmp", tmp], binary=binary, env=env)
        shutil.rmtree(tmp, ignore_errors=True)
        with open(summ) as f:
            s = json.load(f)
        rs = [{"i": i, "args": args, "trace": out, "summary": s, "tlc": validate(out, module, mydev), "conc": conc}]
        if proto:
            for i, so in ((0, "FALSE"), (1, "TRUE")):
                pp = "%s.proto%d" % (out, i)
                if os.path.exists(pp):
                    rp = tlc_trace(pp, dev=(), sdir=sdir, module="CommitTrace", extra_consts="  SyncOn = %s\n" % so)
                    rp["module"], rp["ideal_accepted"] = "CommitTrace", rp["accepted"]
                    rs.append({"i": i, "args": args, "trace": pp, "summary": {"histories": 0, "by_op": {}, "nontrivial": {"protocol_events": rp["total"]}},
                               "tlc": rp, "conc": False, "proto": i})
        if conc and os.path.exists(out + ".lock"):
            # race-detector reports become events of the lock stream: an extra
            # event source for code the access hooks do not cover
            nrace = 0
            with open(out + ".lock", "a") as lf:
                for fn in sorted(os.listdir(work)):
                    if fn.startswith(os.path.basename(racelog) + "."):
                        txt = open(os.path.join(work, fn), errors="replace").read()
                        for rep in txt.split("WARNING: DATA RACE")[1:]:
                            nrace += 1
                            lf.write(json.dumps({"ev": "race", "merger": "(*DB).Merge" in rep or "reWriteData" in rep or "getPendingMergeEntries" in rep,
                                                 "text": rep[:1500]}) + "\n")
            s2 = {"histories": 0, "by_op": {}, "nontrivial": {"race_reports": nrace}}
            rs.append({"i": i, "args": args, "trace": out + ".lock", "summary": s2, "tlc": validate(out + ".lock", "LockTrace", mydev), "conc": conc})
        return rs

    results = []
    with cf.ThreadPoolExecutor(max_workers=max(1, min(len(shards), NCPU - 2))) as ex:
        futs = [ex.submit(one, i, a) for i, a in enumerate(shards)]
        for f in futs:
            results.extend(f.result())
    for r in results:
        t, s = r["tlc"], r["summary"]
        res.cov["traces_validated_against_impl"] += s.get("histories", 1)
        res.cov["evaluations"] += t["reached"]
        res.extra.setdefault("events_by_op", {})
        for k, v in s.get("by_op", {}).items():
            res.extra["events_by_op"][k] = res.extra["events_by_op"].get(k, 0) + v
        for k, v in s.get("nontrivial", {}).items():
            res.extra.setdefault("nontrivial", {})
            res.extra["nontrivial"][k] = res.extra["nontrivial"].get(k, 0) + v
        if t["states"]:
            res.cov["states"] += t["states"]["distinct"]
            res.cov["transitions"] += t["states"]["generated"]
        for line, ids in t["notes"]:
            for fid in ids:
                kf = [k for k in load_known()["known"] if k["id"] == fid]
                txt = kf[0]["summary"] if kf else ""
                ev = read_lines(r["trace"], line, line)
                res.known_finding(fid, "%s (first seen at trace line %d: %s)" % (txt, line, json.dumps(ev[0])[:300] if ev else ""))
        if not t["accepted"]:
            bad = t["reached"] + 1
            if r.get("conc"):
                # a concurrent run cannot be re-executed identically: the recorded,
                # linearised trace is the evidence and the replay file
                r2, t2, bad2 = r, t, bad
            else:
                # re-execute the same seed: a rejection must reproduce
                r2 = [x for x in one(r["i"], r["args"], attempt=1) if x["tlc"]["module"] == t["module"] and x.get("proto") == r.get("proto")][0]
                t2 = r2["tlc"]
                if t2["accepted"]:
                    raise Infra("rejection at line %d of %s did not reproduce on re-execution" % (bad, r["trace"]))
                bad2 = t2["reached"] + 1
            first, last = history_bounds(r2["trace"], bad2)
            first = max(first, bad2 - 400)
            xc = ("  SyncOn = %s\n" % ("TRUE" if r2.get("proto") else "FALSE")) if t2.get("module") == "CommitTrace" else ""
            diag = tlc_trace(r2["trace"], dev=(), diag_line=min(bad2, r2["tlc"].get("ideal_reached", bad2 - 1) + 1), sdir=sdir, module=t2.get("module", "NutsTrace"), extra_consts=xc)
            res.violation("%s: event at trace line %d is not a step of the specification" % (what, bad2), {
                "driver_args": r["args"], "rejected_line": bad2,
                "rejected_event": read_lines(r2["trace"], bad2, bad2),
                "history": read_lines(r2["trace"], first, min(last, bad2)),
                "model_state_before": diag.get("diag"),
                "family": family_desc,
            })
    return results


def gen_transitions(cfg_name, overrides=None, timeout=900, heap="4g", module="DsGen"):
    """Run the DsGen transition emitter with spec/gen/<cfg_name>; returns
    (path of scenario file, tlc result dict, number of transitions)."""
    with open(os.path.join(SPEC, "gen", cfg_name)) as f:
        cfg = f.read()
    for k, v in (overrides or {}).items():
        cfg = re.sub(r"(?m)^  %s (=|<-) .*$" % re.escape(k), "  %s %s" % (k, v), cfg)
    d = spec_dir()
    cfgp = os.path.join(d, "gen_run.cfg")
    with open(cfgp, "w") as f:
        f.write(cfg)
    md = os.path.join(d, "md-gen")
    t = time.time()
    p = java_tlc(["-workers", "1", "-metadir", md, "-config", cfgp, module + ".tla"], d, timeout, heap=heap)
    out = p.stdout + p.stderr
    shutil.rmtree(md, ignore_errors=True)
    st = parse_states(out)
    if st is None or "Error:" in out:
        raise Infra("transition emitter failed:\n" + out[-3000:])
    path = os.path.join(scratch("verif-gen-"), "scen.ndjson")
    n = 0
    with open(path, "w") as f:
        for m in re.finditer(r'^<<"GEN", (".*")>>$', out, re.M):
            f.write(json.loads(m.group(1)) + "\n")
            n += 1
    if n == 0:
        raise Infra("transition emitter produced nothing")
    return path, {"states": st, "wall_s": round(time.time() - t, 2), "violated": None, "ok": True, "out": ""}, n


def distinct_events(results, ops=None):
    """Number of distinct recorded events (operation, arguments, results; clock readings and ids removed) over the
    traces of `results`, restricted to the operations in `ops` when given."""
    import hashlib
    seen = set()
    for r in results:
        try:
            f = open(r["trace"])
        except OSError:
            continue
        with f:
            for line in f:
                try:
                    e = json.loads(line)
                except ValueError:
                    continue
                op = e.get("op") or e.get("ev") or e.get("m") or e.get("kind")
                if ops is not None and op not in ops:
                    continue
                for k in ("t0", "t1", "tsLo", "tsHi", "id", "msg", "tick", "etick", "alt"):
                    e.pop(k, None)
                seen.add(hashlib.sha1(json.dumps(e, sort_keys=True).encode()).digest()[:10])
    return len(seen)


def sample_events(trace, n=6, ops=None):
    out = []
    with open(trace) as f:
        for line in f:
            e = json.loads(line)
            if ops and e.get("op") not in ops:
                continue
            out.append(e)
            if len(out) >= n:
                break
    return out


def main_wrapper(fn):
    try:
        rc = fn()
    except Infra as e:
        sys.stderr.write("INFRA: %s\n" % e)
        sys.exit(2)
    sys.exit(rc)
