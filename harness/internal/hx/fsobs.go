package hx

import (
	"bytes"
	"errors"
	"fmt"
	"os"
	"path/filepath"
	"sort"
	"strings"
	"sync"

	"github.com/xujiajun/nutsdb"
)

// Mut is one file mutation reported by the verifFS hook, in program order.
type Mut struct {
	Op   string // open | truncate | write | sync | close | remove
	Path string // relative to the database directory
	Off  int64  // write offset, or the new size for truncate/open(capacity)
	Data []byte // written bytes (copied)
	Seq  int    // index in the observer's sequence
	Mark int    // driver-defined marker (e.g. index of the public call in progress)
}

// ErrInjected is the error returned by injected faults.
var ErrInjected = errors.New("verif: injected I/O error")

// FSObs observes (and can fail) the library's file mutations.  It keeps an
// in-memory image of every file so that the directory at any mutation point
// can be rebuilt, and checks at the end of a run that the image equals the
// real directory (an unhooked mutation site is an infrastructure error).
type FSObs struct {
	mu    sync.Mutex
	Root  string
	Muts  []Mut
	Mark  int
	files map[string][]byte // current image, by relative path
	// Fault, when non-nil, decides per mutation whether to fail it:
	// partial >= 0 bytes of a write are applied before the error.
	Fault func(m *Mut) (fail bool, partial int)
	// DatWrites counts completed writes to data files since ResetCounters.
	DatWrites int
	Injected  int
	// KeepData=false drops write payloads (saves memory when no image is needed).
	KeepData bool
	// MarkFn, when set, supplies the marker of each mutation.
	MarkFn func() int
	// OnMut, when set, is told about every mutation: the full data the library
	// wanted to write, how many bytes reached the file, and whether a fault was injected.
	OnMut func(op, rel string, off int64, data []byte, written int, injected bool)
}

// NewFSObs installs an observer for the database rooted at dir.
func NewFSObs(dir string) *FSObs {
	o := &FSObs{Root: filepath.Clean(dir), files: map[string][]byte{}, KeepData: true}
	nutsdb.VerifFSHook = o.hook
	return o
}

// Uninstall removes the hook.
func (o *FSObs) Uninstall() { nutsdb.VerifFSHook = nil }

func (o *FSObs) rel(p string) (string, bool) {
	p = filepath.Clean(p)
	if !strings.HasPrefix(p, o.Root+"/") {
		return "", false
	}
	return p[len(o.Root)+1:], true
}

// ResetCounters clears the per-call counters.
func (o *FSObs) ResetCounters() {
	o.mu.Lock()
	o.DatWrites = 0
	o.mu.Unlock()
}

func apply(files map[string][]byte, m *Mut, n int) {
	switch m.Op {
	case "open":
		if _, ok := files[m.Path]; !ok {
			files[m.Path] = []byte{}
		}
	case "truncate":
		f := files[m.Path]
		if int64(len(f)) < m.Off {
			g := make([]byte, m.Off)
			copy(g, f)
			files[m.Path] = g
		}
	case "write":
		f, ok := files[m.Path]
		if !ok {
			f = []byte{}
		}
		end := m.Off + int64(n)
		if int64(len(f)) < end {
			g := make([]byte, end)
			copy(g, f)
			f = g
		}
		copy(f[m.Off:end], m.Data[:n])
		files[m.Path] = f
	case "remove":
		delete(files, m.Path)
	}
}

func (o *FSObs) hook(op, path string, off int64, data []byte) (bool, int, error) {
	rel, ok := o.rel(path)
	if !ok {
		return false, 0, nil
	}
	o.mu.Lock()
	defer o.mu.Unlock()
	m := Mut{Op: op, Path: rel, Off: off, Seq: len(o.Muts), Mark: o.Mark}
	if o.MarkFn != nil {
		m.Mark = o.MarkFn()
	}
	if op == "write" {
		m.Data = append([]byte(nil), data...)
	}
	if op == "open" {
		// an open creates the file only if it does not exist
		if _, exists := o.files[rel]; exists {
			return false, 0, nil
		}
	}
	if os.Getenv("VERIF_FSLOG") != "" {
		fmt.Fprintf(os.Stderr, "fs %s %s off=%d len=%d\n", op, rel, off, len(data))
	}
	if o.Fault != nil && op != "close" {
		if fail, partial := o.Fault(&m); fail {
			o.Injected++
			if os.Getenv("VERIF_FSLOG") != "" {
				fmt.Fprintf(os.Stderr, "fs   ^ injected fault, partial=%d\n", partial)
			}
			if op == "write" && partial > 0 {
				// a failed write is strictly partial: a write that put every
				// byte in place does not report an error
				if partial >= len(data) {
					partial = len(data) - 1
				}
				// perform the partial write ourselves (page cache is coherent
				// with a MAP_SHARED mapping of the same file)
				if f, err := os.OpenFile(path, os.O_RDWR, 0644); err == nil {
					f.WriteAt(data[:partial], off)
					f.Close()
				}
				pm := m
				pm.Data = m.Data[:partial]
				o.Muts = append(o.Muts, pm)
				apply(o.files, &pm, partial)
				if o.OnMut != nil {
					o.OnMut(op, rel, off, data, partial, true)
				}
				return true, partial, ErrInjected
			}
			if o.OnMut != nil {
				o.OnMut(op, rel, off, data, 0, true)
			}
			return true, 0, ErrInjected
		}
	}
	o.Muts = append(o.Muts, m)
	apply(o.files, &m, len(m.Data))
	if o.OnMut != nil {
		o.OnMut(op, rel, off, data, len(data), false)
	}
	if op == "write" && strings.HasSuffix(rel, ".dat") {
		o.DatWrites++
	}
	if !o.KeepData {
		o.Muts[len(o.Muts)-1].Data = nil
	}
	return false, 0, nil
}

// Image returns the file image after the first k mutations (k = len(Muts) is
// the current state).
func (o *FSObs) Image(k int) map[string][]byte {
	files := map[string][]byte{}
	for i := 0; i < k && i < len(o.Muts); i++ {
		m := o.Muts[i]
		if m.Op == "write" {
			// copy-on-write so images do not alias
			f := files[m.Path]
			files[m.Path] = append([]byte(nil), f...)
		}
		apply(files, &m, len(m.Data))
	}
	return files
}

// WriteImage materialises an image under dir (created fresh).
func WriteImage(files map[string][]byte, dir string, mkdirs []string) error {
	os.RemoveAll(dir)
	if err := os.MkdirAll(dir, 0755); err != nil {
		return err
	}
	for _, d := range mkdirs {
		os.MkdirAll(filepath.Join(dir, d), 0755)
	}
	for p, b := range files {
		fp := filepath.Join(dir, p)
		os.MkdirAll(filepath.Dir(fp), 0755)
		if err := os.WriteFile(fp, b, 0644); err != nil {
			return err
		}
	}
	return nil
}

// Verify compares the observer's image with the real directory.  A
// difference means a mutation site is not hooked (or the model of an
// operation is wrong): an infrastructure error, never a verdict.
func (o *FSObs) Verify() error {
	o.mu.Lock()
	defer o.mu.Unlock()
	real := map[string][]byte{}
	err := filepath.Walk(o.Root, func(p string, info os.FileInfo, err error) error {
		if err != nil || info.IsDir() {
			return err
		}
		b, err := os.ReadFile(p)
		if err != nil {
			return err
		}
		r, _ := o.rel(p)
		real[r] = b
		return nil
	})
	if err != nil {
		return err
	}
	var names []string
	for p := range real {
		names = append(names, p)
	}
	for p := range o.files {
		if _, ok := real[p]; !ok {
			names = append(names, p)
		}
	}
	sort.Strings(names)
	for _, p := range names {
		a, okA := o.files[p]
		b, okB := real[p]
		if okA != okB {
			return fmt.Errorf("file %s: in image=%v on disk=%v", p, okA, okB)
		}
		if !bytes.Equal(a, b) {
			return fmt.Errorf("file %s: image (%d bytes) differs from disk (%d bytes)", p, len(a), len(b))
		}
	}
	return nil
}
