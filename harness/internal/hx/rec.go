// Package hx is the recording wrapper around the real nutsdb API: it drives
// the library, never judges it.  Every public call return becomes one ndjson
// event (arguments, results, clock readings) that NutsTrace.tla validates.
package hx

import (
	"bufio"
	"crypto/sha1"
	"encoding/hex"
	"encoding/json"
	"fmt"
	"os"
	"sync"
	"time"
)

// Ev is one trace event.
type Ev map[string]interface{}

// Recorder writes ndjson events.
type Recorder struct {
	mu   sync.Mutex
	f    *os.File
	w    *bufio.Writer
	N    int
	Base int64 // unix second that maps to relative time 0
	Keep bool  // also keep events in memory
	Hold bool  // keep events in memory only, until Release
	Evs  []Ev
	Cnt  map[string]int
}

// NewRecorder creates the trace file.
func NewRecorder(path string) (*Recorder, error) {
	f, err := os.Create(path)
	if err != nil {
		return nil, err
	}
	return &Recorder{f: f, w: bufio.NewWriterSize(f, 1<<20), Base: time.Now().Unix() - 2000000, Cnt: map[string]int{}}, nil
}

// Rel converts a unix second to the trace's relative time; every integer
// written to a trace must fit TLC's 32-bit integers.
func (r *Recorder) Rel(t int64) int64 { return t - r.Base }

// Now returns the current relative second.
func (r *Recorder) Now() int64 { return r.Rel(time.Now().Unix()) }

func checkInts(v interface{}) {
	switch x := v.(type) {
	case int:
		if x > 1<<30 || x < -(1<<30) {
			panic(fmt.Sprintf("harness: integer %d does not fit the trace format", x))
		}
	case int64:
		if x > 1<<30 || x < -(1<<30) {
			panic(fmt.Sprintf("harness: integer %d does not fit the trace format", x))
		}
	case []int:
	case Ev:
		for _, y := range x {
			checkInts(y)
		}
	case map[string]interface{}:
		for _, y := range x {
			checkInts(y)
		}
	case []interface{}:
		for _, y := range x {
			checkInts(y)
		}
	case []Ev:
		for _, y := range x {
			checkInts(y)
		}
	}
}

// Emit writes one event.
func (r *Recorder) Emit(e Ev) {
	checkInts(e)
	b, err := json.Marshal(e)
	if err != nil {
		panic(err)
	}
	r.mu.Lock()
	if r.Hold {
		r.Evs = append(r.Evs, e)
		r.N++
		if op, ok := e["op"].(string); ok {
			r.Cnt[op]++
		}
		r.mu.Unlock()
		return
	}
	r.w.Write(b)
	r.w.WriteByte('\n')
	r.N++
	if op, ok := e["op"].(string); ok {
		r.Cnt[op]++
	}
	if r.Keep {
		r.Evs = append(r.Evs, e)
	}
	r.mu.Unlock()
}

// HeldLen is the number of held events (the index the next event will get).
func (r *Recorder) HeldLen() int {
	r.mu.Lock()
	defer r.mu.Unlock()
	return len(r.Evs)
}

// Release writes the held events; before the i-th held event it writes the
// events insert(i) returns (insert(len) is called once more at the end).
func (r *Recorder) Release(insert func(i int) []Ev) {
	r.mu.Lock()
	held := r.Evs
	r.Evs = nil
	r.Hold = false
	r.N -= len(held)
	for _, e := range held {
		if op, ok := e["op"].(string); ok {
			r.Cnt[op]--
		}
	}
	r.mu.Unlock()
	for i := 0; i <= len(held); i++ {
		if insert != nil {
			for _, x := range insert(i) {
				r.Emit(x)
			}
		}
		if i < len(held) {
			r.Emit(held[i])
		}
	}
}

// TakeHeld returns the held events without writing them and ends Hold mode.
func (r *Recorder) TakeHeld() []Ev {
	r.mu.Lock()
	defer r.mu.Unlock()
	held := r.Evs
	r.Evs = nil
	r.Hold = false
	r.N -= len(held)
	for _, e := range held {
		if op, ok := e["op"].(string); ok {
			r.Cnt[op]--
		}
	}
	return held
}

// Close flushes the trace.
func (r *Recorder) Close() error {
	r.mu.Lock()
	defer r.mu.Unlock()
	if err := r.w.Flush(); err != nil {
		return err
	}
	return r.f.Close()
}

// K encodes a byte string as a JSON array of ints (TLA+ byte sequence).
func K(b []byte) []int {
	out := make([]int, len(b))
	for i, c := range b {
		out[i] = int(c)
	}
	return out
}

// V records a KV value: short values verbatim, long ones (the `bigval`
// family writes values of several kilobytes) as length + digest, which keeps
// equality and keeps the traces small.
func V(b []byte) string {
	if len(b) <= 96 {
		return string(b)
	}
	h := sha1.Sum(b)
	return fmt.Sprintf("<%d bytes sha1 %s>", len(b), hex.EncodeToString(h[:8]))
}

// Ks encodes a string the same way.
func Ks(s string) []int { return K([]byte(s)) }

// Strs converts byte slices to strings.
func Strs(bs [][]byte) []string {
	out := make([]string, len(bs))
	for i, b := range bs {
		out[i] = string(b)
	}
	return out
}
