package hx

import (
	"encoding/binary"
	"strings"
)

// ImgSpec names one crash image of a recorded mutation sequence.
//
// Process crash (Power=false): the first K mutations are applied in full; if
// Torn >= 0 the K-th mutation (a write) is applied for its first Torn bytes
// only.
//
// Power loss (Power=true): as above, then every file reverts to its content
// at its last sync among the first K mutations; of the unsynced writes that
// follow, the first Keep are kept (Keep = -1: none; the last kept one torn
// to KeepTorn bytes when KeepTorn >= 0).  A file that was never synced keeps
// its creation (open/truncate) only when KeepCreate is set.  Unsynced removes
// are undone when UndoRemove is set.
type ImgSpec struct {
	K          int
	Torn       int
	Power      bool
	Keep       int
	KeepTorn   int
	KeepCreate bool
	UndoRemove bool
}

// TornPoints returns the byte counts at which the write m is torn: every
// record-field boundary of a data-file entry (all=true) or a representative
// subset, always including 1 byte short.
func TornPoints(m *Mut, all bool) []int {
	n := len(m.Data)
	if m.Op != "write" || n < 2 {
		return nil
	}
	var pts []int
	if strings.HasSuffix(m.Path, ".dat") && n >= 42 {
		ks := int(binary.LittleEndian.Uint32(m.Data[12:16]))
		bs := int(binary.LittleEndian.Uint32(m.Data[26:30]))
		if all {
			pts = []int{1, 4, 12, 16, 20, 22, 26, 30, 32, 34, 41, 42, 42 + bs, 42 + bs + ks, n - 1}
		} else {
			pts = []int{4, 41, 42, 42 + bs + ks, n - 1}
		}
	} else if all {
		pts = []int{1, n / 4, n / 2, n - 1}
	} else {
		pts = []int{n / 2, n - 1}
	}
	seen := map[int]bool{}
	var out []int
	for _, p := range pts {
		if p > 0 && p < n && !seen[p] {
			seen[p] = true
			out = append(out, p)
		}
	}
	return out
}

// BuildImage materialises the file contents described by spec.
func (o *FSObs) BuildImage(spec ImgSpec) map[string][]byte {
	muts := o.Muts
	k := spec.K
	if k > len(muts) {
		k = len(muts)
	}
	if !spec.Power {
		files := map[string][]byte{}
		for i := 0; i < k; i++ {
			applyCOW(files, &muts[i], len(muts[i].Data))
		}
		if spec.Torn >= 0 && k < len(muts) && muts[k].Op == "write" {
			applyCOW(files, &muts[k], spec.Torn)
		}
		return files
	}
	// power loss
	lastSync := map[string]int{}
	for i := 0; i < k; i++ {
		if muts[i].Op == "sync" {
			lastSync[muts[i].Path] = i
		}
	}
	files := map[string][]byte{}
	kept := 0
	lastKept := -1
	if spec.Keep > 0 {
		// index of the last unsynced write that is kept
		c := 0
		for i := 0; i < k; i++ {
			m := &muts[i]
			ls, ok := lastSync[m.Path]
			if m.Op == "write" && (!ok || i > ls) {
				c++
				if c == spec.Keep {
					lastKept = i
				}
			}
		}
	}
	for i := 0; i < k; i++ {
		m := &muts[i]
		ls, synced := lastSync[m.Path]
		durable := synced && i <= ls
		switch m.Op {
		case "open", "truncate":
			if durable || synced || spec.KeepCreate {
				applyCOW(files, m, 0)
			}
		case "write":
			if durable {
				applyCOW(files, m, len(m.Data))
			} else if spec.Keep > 0 && kept < spec.Keep {
				if _, exists := files[m.Path]; !exists && !spec.KeepCreate && !synced {
					continue // the file itself did not survive
				}
				kept++
				n := len(m.Data)
				if i == lastKept && spec.KeepTorn >= 0 && spec.KeepTorn < n {
					n = spec.KeepTorn
				}
				applyCOW(files, m, n)
			}
		case "remove":
			if !spec.UndoRemove {
				applyCOW(files, m, 0)
			}
		}
	}
	return files
}

func applyCOW(files map[string][]byte, m *Mut, n int) {
	if m.Op == "write" {
		files[m.Path] = append([]byte(nil), files[m.Path]...)
	}
	apply(files, m, n)
}
