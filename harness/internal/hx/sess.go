package hx

import (
	"fmt"
	"math"
	"strings"
	"os"
	"runtime/debug"
	"sort"
	"time"

	"github.com/xujiajun/nutsdb"
	"github.com/xujiajun/nutsdb/ds/zset"
)

// Universe is the finite set of names a driver uses; observations enumerate it.
type Universe struct {
	KvBuckets []string
	LsBuckets []string
	StBuckets []string
	ZsBuckets []string
	LsKeys    []string
	StKeys    []string
}

// Sess wraps one database handle and records every call made through it.
type Sess struct {
	R     *Recorder
	DB    *nutsdb.DB
	Opt   nutsdb.Options
	U     *Universe
	txSeq int
	// Panics counts calls that panicked (recorded as events no action admits).
	Panics int
	// OnHang runs before the process exits after a detected deadlock.
	OnHang func()
	// Proto, when set, receives the protocol-grain events of every Commit
	// (CommitTrace.tla): begin / create / write / sync / end.
	Proto      *Recorder
	protoIn    bool // inside a Commit call
	protoMuted bool // inside Merge (its internal commits are not bracketed)
}

// ProtoEpoch tells the protocol trace that the files start a new epoch.
func (s *Sess) ProtoEpoch(fresh bool) {
	if s.Proto != nil {
		s.Proto.Emit(Ev{"ev": "epoch", "sync": s.Opt.SyncEnable, "fresh": fresh})
	}
}

// ProtoMut is the FSObs.OnMut callback.
func (s *Sess) ProtoMut(op, rel string, off int64, data []byte, written int, injected bool) {
	if s.Proto == nil || !s.protoIn || s.protoMuted || !strings.HasSuffix(rel, ".dat") || strings.Contains(rel, "/") {
		return
	}
	switch op {
	case "open":
		// a data file is created by open + truncate: it counts as created
		// once both have succeeded
		if injected {
			s.Proto.Emit(Ev{"ev": "createfail", "file": rel})
		}
	case "truncate":
		if injected {
			s.Proto.Emit(Ev{"ev": "createfail", "file": rel})
		} else {
			s.Proto.Emit(Ev{"ev": "create", "file": rel})
		}
	case "write":
		committed := len(data) >= 32 && data[30] == 1 && data[31] == 0
		s.Proto.Emit(Ev{"ev": "write", "file": rel, "off": int(off), "len": written, "committed": committed, "injected": injected})
	case "sync":
		s.Proto.Emit(Ev{"ev": "sync", "file": rel, "injected": injected})
	}
}

// HangAfter is the watchdog period for one library call.
var HangAfter = 120 * time.Second

// Tx wraps a transaction.
type Tx struct {
	S   *Sess
	T   *nutsdb.Tx
	W   bool
	Fin bool
	ID  string
}

func (s *Sess) now() int64 { return s.R.Rel(time.Now().Unix()) }

// guard runs f, converting a panic into a recorded outcome.
func (s *Sess) guard(e Ev, f func()) {
	e["t0"] = s.now()
	// a sequential driver that does not return from a library call for
	// HangAfter is deadlocked: record it as the call's outcome (an event no
	// action admits) and end the run; the orchestrator re-executes the seed
	wd := time.AfterFunc(HangAfter, func() {
		e2 := Ev{"op": e["op"], "panic": "deadlock: the call did not return within " + HangAfter.String(), "err": true, "t0": e["t0"], "t1": e["t0"]}
		s.R.Emit(e2)
		s.R.Close()
		if s.OnHang != nil {
			s.OnHang()
		}
		os.Exit(0)
	})
	defer wd.Stop()
	defer func() {
		if r := recover(); r != nil {
			s.Panics++
			e["panic"] = fmt.Sprint(r)
			e["err"] = true
			if os.Getenv("VERIF_STACK") != "" {
				fmt.Fprintf(os.Stderr, "panic in %v: %v\n%s\n", e["op"], r, debug.Stack())
			}
		}
		e["t1"] = s.now()
		s.R.Emit(e)
	}()
	f()
}

// Reset starts a new history in the trace.
func (s *Sess) Reset() { s.R.Emit(Ev{"op": "reset"}) }

// Open opens the database and records the outcome.
func (s *Sess) Open() error {
	var err error
	e := Ev{"op": "open"}
	s.guard(e, func() {
		s.DB, err = nutsdb.Open(s.Opt)
		e["err"] = err != nil
		if err != nil {
			e["msg"] = err.Error()
		}
	})
	s.ProtoEpoch(false)
	return err
}

// OpenFirst opens a fresh directory without recording (the model starts open).
func (s *Sess) OpenFirst() error {
	var err error
	s.DB, err = nutsdb.Open(s.Opt)
	return err
}

// Close closes the database.
func (s *Sess) Close() error {
	var err error
	e := Ev{"op": "close"}
	s.guard(e, func() {
		err = s.DB.Close()
		e["err"] = err != nil
	})
	return err
}

// Merge calls DB.Merge.
func (s *Sess) Merge() error {
	var err error
	e := Ev{"op": "merge"}
	s.guard(e, func() {
		err = s.DB.Merge()
		e["err"] = err != nil
		if err != nil {
			e["msg"] = err.Error()
		}
	})
	return err
}

// MergeObs calls DB.Merge and, in the same event, records the full
// observation of the running database (o) and of a shadow reopen (so).
func (s *Sess) MergeObs(tmp string) error {
	var err error
	e := Ev{"op": "merge"}
	empty := Ev{"kv": []Ev{}, "ls": []Ev{}, "st": []Ev{}, "zs": []Ev{}}
	e["o"], e["so"], e["serr"], e["operr"] = empty, empty, false, false
	s.protoMuted = true
	defer func() { s.protoMuted = false; s.ProtoEpoch(false) }()
	s.guard(e, func() {
		if os.Getenv("VERIF_FSLOG") != "" {
			fmt.Fprintln(os.Stderr, "== merge begin")
		}
		err = s.DB.Merge()
		if os.Getenv("VERIF_FSLOG") != "" {
			fmt.Fprintln(os.Stderr, "== merge end", err)
		}
		e["err"] = err != nil
		if err != nil {
			e["msg"] = err.Error()
		}
		o, oerr := ObserveDB(s.DB, s.U)
		if oerr != nil {
			e["operr"] = true
			e["omsg"] = oerr.Error()
		} else {
			e["o"] = o
		}
		os.RemoveAll(tmp)
		if cerr := CopyDir(s.Opt.Dir, tmp); cerr != nil {
			panic("harness: copy failed: " + cerr.Error())
		}
		so, serr := ObserveCopy(s.Opt, tmp, s.U)
		if serr != nil {
			e["serr"] = true
			e["smsg"] = serr.Error()
		} else {
			e["so"] = so
		}
		os.RemoveAll(tmp)
	})
	return err
}

// Begin starts a transaction.
func (s *Sess) Begin(w bool) (*Tx, error) {
	s.txSeq++
	t := &Tx{S: s, W: w}
	var err error
	e := Ev{"op": "begin", "w": w}
	s.guard(e, func() {
		t.T, err = s.DB.Begin(w)
		e["err"] = err != nil
		if err == nil {
			t.ID = fmt.Sprintf("%d", nutsdb.VerifTxID(t.T))
		}
		e["id"] = t.ID
	})
	if err != nil {
		return nil, err
	}
	return t, nil
}

// ErrFn is what a transaction function returns to make Update / View roll back.
var ErrFn = fmt.Errorf("verif: the transaction function failed")

// Managed runs body through DB.Update (w) or DB.View, the way applications
// do.  With fnErr the function returns an error after body, so the library
// itself must roll the transaction back (C12).  The recorded events are the
// same as for Begin ... Commit / Rollback.
func (s *Sess) Managed(w bool, fnErr bool, nwOnFail func() int, body func(t *Tx)) error {
	s.txSeq++
	var t *Tx
	entered := false
	fn := func(tx *nutsdb.Tx) error {
		entered = true
		t = &Tx{S: s, T: tx, W: w, ID: fmt.Sprintf("%d", nutsdb.VerifTxID(tx))}
		now := s.now()
		s.R.Emit(Ev{"op": "begin", "w": w, "err": false, "id": t.ID, "t0": now, "t1": now, "managed": true})
		if s.Proto != nil && w {
			// the number of pending writes is known only after body; the begin
			// event of the protocol stream is emitted right before the function returns
			defer func() {
				if n := nutsdb.VerifPendingLen(tx); n > 0 && !fnErr {
					s.Proto.Emit(Ev{"ev": "begin", "n": n, "id": t.ID})
					s.protoIn = true
				}
			}()
		}
		body(t)
		if fnErr {
			return ErrFn
		}
		return nil
	}
	var err error
	e := Ev{"op": "commit"}
	if fnErr {
		e = Ev{"op": "rollback"}
	}
	s.guard(e, func() {
		if w {
			err = s.DB.Update(fn)
		} else {
			err = s.DB.View(fn)
		}
		if s.protoIn {
			s.protoIn = false
			s.Proto.Emit(Ev{"ev": "end", "err": err != nil})
		}
		if !entered {
			// Begin failed (closed database): the whole call is a refused begin
			e["op"], e["w"], e["id"] = "begin", w, ""
			e["err"] = err != nil
			return
		}
		if fnErr {
			// the function's own error comes back; the transaction was rolled back
			e["err"] = err != ErrFn
			return
		}
		e["err"] = err != nil
		if err != nil {
			e["msg"] = err.Error()
			nw := 0
			if nwOnFail != nil {
				nw = nwOnFail()
			}
			e["nw"] = nw
		}
	})
	if t != nil {
		t.Fin = true
	}
	return err
}

// Commit commits; nw (records completely written before a failure) is
// supplied by the caller's file observer when the commit fails.
func (t *Tx) Commit(nwOnFail func() int) error {
	var err error
	e := Ev{"op": "commit"}
	if t.Fin {
		e["fin"] = true
	}
	if t.S.Proto != nil && !t.Fin && t.W {
		if n := nutsdb.VerifPendingLen(t.T); n > 0 {
			t.S.Proto.Emit(Ev{"ev": "begin", "n": n, "id": t.ID})
			t.S.protoIn = true
		}
	}
	defer func() {
		if t.S.protoIn {
			t.S.protoIn = false
			t.S.Proto.Emit(Ev{"ev": "end", "err": err != nil})
		}
	}()
	t.S.guard(e, func() {
		err = t.T.Commit()
		e["err"] = err != nil
		if err != nil {
			e["msg"] = err.Error()
			if !t.Fin {
				nw := 0
				if nwOnFail != nil {
					nw = nwOnFail()
				}
				e["nw"] = nw
			}
		}
	})
	if err != nil && !t.Fin {
		// like DB.managed: a failed Commit is followed by Rollback to release the lock
		t.T.Rollback()
	}
	t.Fin = true
	return err
}

// Rollback rolls back.
func (t *Tx) Rollback() error {
	var err error
	e := Ev{"op": "rollback"}
	if t.Fin {
		e["fin"] = true
	}
	t.S.guard(e, func() {
		err = t.T.Rollback()
		e["err"] = err != nil
	})
	t.Fin = true
	return err
}

func (t *Tx) ev(op string, b string) Ev {
	e := Ev{"op": op, "b": b}
	if t.S.Opt.EntryIdxMode == nutsdb.HintBPTSparseIdxMode {
		e["sparse"] = true
	}
	if t.Fin {
		e["fin"] = true
	}
	return e
}

func kvRes(es nutsdb.Entries) []Ev {
	out := make([]Ev, 0, len(es))
	for _, x := range es {
		if x == nil {
			out = append(out, Ev{"k": []int{}, "v": "<nil entry>"})
			continue
		}
		out = append(out, Ev{"k": K(x.Key), "v": V(x.Value)})
	}
	return out
}

// ---------------------------------------------------------------- KV

func (t *Tx) Put(b string, k, v []byte, ttl uint32) error {
	var err error
	e := t.ev("put", b)
	e["k"], e["v"], e["ttl"] = K(k), V(v), int(ttl)
	e["tsLo"] = t.S.now()
	e["tsHi"] = e["tsLo"]
	t.S.guard(e, func() { err = t.T.Put(b, k, v, ttl); e["err"] = err != nil; e["tsHi"] = t.S.now() })
	return err
}

func (t *Tx) PutTS(b string, k, v []byte, ttl uint32, ts uint64) error {
	var err error
	e := t.ev("put", b)
	e["k"], e["v"], e["ttl"] = K(k), V(v), int(ttl)
	e["tsLo"], e["tsHi"] = t.S.R.Rel(int64(ts)), t.S.R.Rel(int64(ts))
	t.S.guard(e, func() { err = t.T.PutWithTimestamp(b, k, v, ttl, ts); e["err"] = err != nil })
	return err
}

func (t *Tx) Delete(b string, k []byte) error {
	var err error
	e := t.ev("del", b)
	e["k"] = K(k)
	t.S.guard(e, func() { err = t.T.Delete(b, k); e["err"] = err != nil })
	return err
}

func (t *Tx) Get(b string, k []byte) (string, error) {
	var err error
	var v string
	e := t.ev("get", b)
	e["k"] = K(k)
	e["v"] = ""
	t.S.guard(e, func() {
		var x *nutsdb.Entry
		x, err = t.T.Get(b, k)
		e["err"] = err != nil
		if err == nil {
			if x == nil {
				e["v"] = "<nil entry>"
			} else {
				v = V(x.Value)
				e["v"] = v
				if string(x.Key) != string(k) {
					e["v"] = "<foreign key " + string(x.Key) + ">" + v
				}
			}
		}
	})
	return v, err
}

func (t *Tx) scan(e Ev, f func() (nutsdb.Entries, error)) (nutsdb.Entries, error) {
	var es nutsdb.Entries
	var err error
	e["res"] = []Ev{}
	t.S.guard(e, func() {
		es, err = f()
		e["err"] = err != nil
		if err == nil {
			e["res"] = kvRes(es)
		}
	})
	return es, err
}

func (t *Tx) GetAll(b string) (nutsdb.Entries, error) {
	return t.scan(t.ev("getall", b), func() (nutsdb.Entries, error) { return t.T.GetAll(b) })
}

func (t *Tx) RangeScan(b string, s, e []byte) (nutsdb.Entries, error) {
	ev := t.ev("range", b)
	ev["s"], ev["e"] = K(s), K(e)
	return t.scan(ev, func() (nutsdb.Entries, error) { return t.T.RangeScan(b, s, e) })
}

func (t *Tx) PrefixScan(b string, p []byte, off, lim int) (nutsdb.Entries, error) {
	ev := t.ev("pscan", b)
	ev["p"], ev["off"], ev["lim"] = K(p), off, lim
	return t.scan(ev, func() (nutsdb.Entries, error) { es, _, err := t.T.PrefixScan(b, p, off, lim); return es, err })
}

// PrefixSearchScan: ms is the set of universe keys (with prefix p) whose
// remainder matches reg, computed by the caller with Go's regexp; badre says
// the expression does not compile.
func (t *Tx) PrefixSearchScan(b string, p []byte, reg string, ms [][]byte, badre bool, off, lim int) (nutsdb.Entries, error) {
	ev := t.ev("psscan", b)
	m := make([][]int, 0, len(ms))
	for _, x := range ms {
		m = append(m, K(x))
	}
	ev["p"], ev["off"], ev["lim"], ev["ms"], ev["badre"], ev["reg"] = K(p), off, lim, m, badre, reg
	return t.scan(ev, func() (nutsdb.Entries, error) {
		es, _, err := t.T.PrefixSearchScan(b, p, reg, off, lim)
		return es, err
	})
}

// ---------------------------------------------------------------- lists

func (t *Tx) push(op, b, k string, vals [][]byte) error {
	var err error
	e := t.ev(op, b)
	e["k"], e["vals"] = k, Strs(vals)
	t.S.guard(e, func() {
		if op == "rpush" {
			err = t.T.RPush(b, []byte(k), vals...)
		} else {
			err = t.T.LPush(b, []byte(k), vals...)
		}
		e["err"] = err != nil
	})
	return err
}

func (t *Tx) RPush(b, k string, vals ...[]byte) error { return t.push("rpush", b, k, vals) }
func (t *Tx) LPush(b, k string, vals ...[]byte) error { return t.push("lpush", b, k, vals) }

func (t *Tx) item(op, b, k string, f func() ([]byte, error)) (string, error) {
	var err error
	var it []byte
	e := t.ev(op, b)
	e["k"], e["res"] = k, ""
	t.S.guard(e, func() {
		it, err = f()
		e["err"] = err != nil
		if err == nil {
			e["res"] = string(it)
		}
	})
	return string(it), err
}

func (t *Tx) LPop(b, k string) (string, error) {
	return t.item("lpop", b, k, func() ([]byte, error) { return t.T.LPop(b, []byte(k)) })
}
func (t *Tx) RPop(b, k string) (string, error) {
	return t.item("rpop", b, k, func() ([]byte, error) { return t.T.RPop(b, []byte(k)) })
}
func (t *Tx) LPeek(b, k string) (string, error) {
	return t.item("lpeek", b, k, func() ([]byte, error) { return t.T.LPeek(b, []byte(k)) })
}
func (t *Tx) RPeek(b, k string) (string, error) {
	return t.item("rpeek", b, k, func() ([]byte, error) { return t.T.RPeek(b, []byte(k)) })
}

func (t *Tx) LSize(b, k string) (int, error) {
	var err error
	var n int
	e := t.ev("lsize", b)
	e["k"], e["n"] = k, 0
	t.S.guard(e, func() { n, err = t.T.LSize(b, []byte(k)); e["err"] = err != nil; e["n"] = n })
	return n, err
}

func (t *Tx) LRange(b, k string, s, en int) ([]string, error) {
	var err error
	var out []string
	e := t.ev("lrange", b)
	e["k"], e["s"], e["e"], e["res"] = k, s, en, []string{}
	t.S.guard(e, func() {
		var l [][]byte
		l, err = t.T.LRange(b, []byte(k), s, en)
		e["err"] = err != nil
		if err == nil {
			out = Strs(l)
			e["res"] = out
		}
	})
	return out, err
}

func (t *Tx) LRem(b, k string, cnt int, v []byte) (int, error) {
	var err error
	var n int
	e := t.ev("lrem", b)
	e["k"], e["cnt"], e["v"], e["n"] = k, cnt, string(v), 0
	t.S.guard(e, func() { n, err = t.T.LRem(b, []byte(k), cnt, v); e["err"] = err != nil; e["n"] = n })
	return n, err
}

func (t *Tx) LSet(b, k string, i int, v []byte) error {
	var err error
	e := t.ev("lset", b)
	e["k"], e["i"], e["v"] = k, i, string(v)
	t.S.guard(e, func() { err = t.T.LSet(b, []byte(k), i, v); e["err"] = err != nil })
	return err
}

func (t *Tx) LTrim(b, k string, s, en int) error {
	var err error
	e := t.ev("ltrim", b)
	e["k"], e["s"], e["e"] = k, s, en
	t.S.guard(e, func() { err = t.T.LTrim(b, []byte(k), s, en); e["err"] = err != nil })
	return err
}

// ---------------------------------------------------------------- sets

func (t *Tx) SAdd(b, k string, items ...[]byte) error {
	var err error
	e := t.ev("sadd", b)
	e["k"], e["vals"] = k, Strs(items)
	t.S.guard(e, func() { err = t.T.SAdd(b, []byte(k), items...); e["err"] = err != nil })
	return err
}

func (t *Tx) SRem(b, k string, items ...[]byte) error {
	var err error
	e := t.ev("srem", b)
	e["k"], e["vals"] = k, Strs(items)
	t.S.guard(e, func() { err = t.T.SRem(b, []byte(k), items...); e["err"] = err != nil })
	return err
}

func (t *Tx) SPop(b, k string) (string, error) {
	return t.item("spop", b, k, func() ([]byte, error) { return t.T.SPop(b, []byte(k)) })
}

// SMove uses SMoveByOneBucket when b == b2, else SMoveByTwoBuckets.
func (t *Tx) SMove(b, k, b2, k2 string, item []byte, two bool) (bool, error) {
	var err error
	var ok bool
	e := t.ev("smove", b)
	e["k"], e["b2"], e["k2"], e["v"], e["ok"], e["two"] = k, b2, k2, string(item), false, two
	t.S.guard(e, func() {
		if two {
			ok, err = t.T.SMoveByTwoBuckets(b, []byte(k), b2, []byte(k2), item)
		} else {
			ok, err = t.T.SMoveByOneBucket(b, []byte(k), []byte(k2), item)
		}
		e["err"] = err != nil
		e["ok"] = ok
	})
	return ok, err
}

func (t *Tx) boolq(e Ev, f func() (bool, error)) (bool, error) {
	var err error
	var ok bool
	e["ok"] = false
	t.S.guard(e, func() { ok, err = f(); e["err"] = err != nil; e["ok"] = ok })
	return ok, err
}

func (t *Tx) SIsMember(b, k string, item []byte) (bool, error) {
	e := t.ev("sismember", b)
	e["k"], e["v"] = k, string(item)
	return t.boolq(e, func() (bool, error) { return t.T.SIsMember(b, []byte(k), item) })
}

func (t *Tx) SAreMembers(b, k string, items ...[]byte) (bool, error) {
	e := t.ev("saremembers", b)
	e["k"], e["vals"] = k, Strs(items)
	return t.boolq(e, func() (bool, error) { return t.T.SAreMembers(b, []byte(k), items...) })
}

func (t *Tx) SHasKey(b, k string) (bool, error) {
	e := t.ev("shaskey", b)
	e["k"] = k
	return t.boolq(e, func() (bool, error) { return t.T.SHasKey(b, []byte(k)) })
}

func (t *Tx) strsq(e Ev, f func() ([][]byte, error)) ([]string, error) {
	var err error
	var out []string
	e["res"] = []string{}
	t.S.guard(e, func() {
		var l [][]byte
		l, err = f()
		e["err"] = err != nil
		if err == nil {
			out = Strs(l)
			sort.Strings(out)
			e["res"] = out
		}
	})
	return out, err
}

func (t *Tx) SMembers(b, k string) ([]string, error) {
	e := t.ev("smembers", b)
	e["k"] = k
	return t.strsq(e, func() ([][]byte, error) { return t.T.SMembers(b, []byte(k)) })
}

func (t *Tx) SCard(b, k string) (int, error) {
	var err error
	var n int
	e := t.ev("scard", b)
	e["k"], e["n"] = k, 0
	t.S.guard(e, func() { n, err = t.T.SCard(b, []byte(k)); e["err"] = err != nil; e["n"] = n })
	return n, err
}

func (t *Tx) SDiff(b, k, b2, k2 string, two bool) ([]string, error) {
	e := t.ev("sdiff", b)
	e["k"], e["b2"], e["k2"], e["two"] = k, b2, k2, two
	return t.strsq(e, func() ([][]byte, error) {
		if two {
			return t.T.SDiffByTwoBuckets(b, []byte(k), b2, []byte(k2))
		}
		return t.T.SDiffByOneBucket(b, []byte(k), []byte(k2))
	})
}

func (t *Tx) SUnion(b, k, b2, k2 string, two bool) ([]string, error) {
	e := t.ev("sunion", b)
	e["k"], e["b2"], e["k2"], e["two"] = k, b2, k2, two
	return t.strsq(e, func() ([][]byte, error) {
		if two {
			return t.T.SUnionByTwoBuckets(b, []byte(k), b2, []byte(k2))
		}
		return t.T.SUnionByOneBucket(b, []byte(k), []byte(k2))
	})
}

// ---------------------------------------------------------------- sorted sets

// ScoreInt maps a score to the trace's integers; a non-integral or huge
// score becomes a sentinel that no model score equals.
func ScoreInt(f float64) int {
	if f != math.Trunc(f) || math.IsNaN(f) || math.IsInf(f, 0) || math.Abs(f) > 1e6 {
		return 999999937
	}
	return int(f)
}

func nodeEv(n *zset.SortedSetNode) Ev {
	if n == nil {
		return Ev{"k": []int{}, "s": 0, "v": ""}
	}
	return Ev{"k": Ks(n.Key()), "s": ScoreInt(float64(n.Score())), "v": string(n.Value)}
}

func nodesEv(ns []*zset.SortedSetNode) []Ev {
	out := make([]Ev, 0, len(ns))
	for _, n := range ns {
		out = append(out, nodeEv(n))
	}
	return out
}

func (t *Tx) ZAdd(b string, k []byte, score float64, v []byte) error {
	var err error
	e := t.ev("zadd", b)
	e["k"], e["s"], e["v"] = K(k), ScoreInt(score), string(v)
	t.S.guard(e, func() { err = t.T.ZAdd(b, k, score, v); e["err"] = err != nil })
	return err
}

func (t *Tx) ZRem(b string, k string) error {
	var err error
	e := t.ev("zrem", b)
	e["k"] = Ks(k)
	t.S.guard(e, func() { err = t.T.ZRem(b, k); e["err"] = err != nil })
	return err
}

func (t *Tx) ZRemRangeByRank(b string, s, en int) error {
	var err error
	e := t.ev("zremrank", b)
	e["s"], e["e"] = s, en
	t.S.guard(e, func() { err = t.T.ZRemRangeByRank(b, s, en); e["err"] = err != nil })
	return err
}

func (t *Tx) nodeq(op, b string, f func() (*zset.SortedSetNode, error)) (*zset.SortedSetNode, error) {
	var err error
	var n *zset.SortedSetNode
	e := t.ev(op, b)
	e["nil"], e["node"] = true, nodeEv(nil)
	t.S.guard(e, func() {
		n, err = f()
		e["err"] = err != nil
		if err == nil {
			e["nil"] = n == nil
			e["node"] = nodeEv(n)
		}
	})
	return n, err
}

func (t *Tx) ZPopMax(b string) (*zset.SortedSetNode, error) {
	return t.nodeq("zpopmax", b, func() (*zset.SortedSetNode, error) { return t.T.ZPopMax(b) })
}
func (t *Tx) ZPopMin(b string) (*zset.SortedSetNode, error) {
	return t.nodeq("zpopmin", b, func() (*zset.SortedSetNode, error) { return t.T.ZPopMin(b) })
}
func (t *Tx) ZPeekMax(b string) (*zset.SortedSetNode, error) {
	return t.nodeq("zpeekmax", b, func() (*zset.SortedSetNode, error) { return t.T.ZPeekMax(b) })
}
func (t *Tx) ZPeekMin(b string) (*zset.SortedSetNode, error) {
	return t.nodeq("zpeekmin", b, func() (*zset.SortedSetNode, error) { return t.T.ZPeekMin(b) })
}
func (t *Tx) ZGetByKey(b string, k []byte) (*zset.SortedSetNode, error) {
	e := t.ev("zgetbykey", b)
	_ = e
	var err error
	var n *zset.SortedSetNode
	ev := t.ev("zgetbykey", b)
	ev["k"], ev["nil"], ev["node"] = K(k), true, nodeEv(nil)
	t.S.guard(ev, func() {
		n, err = t.T.ZGetByKey(b, k)
		ev["err"] = err != nil
		if err == nil {
			ev["nil"] = n == nil
			ev["node"] = nodeEv(n)
		}
	})
	return n, err
}

func (t *Tx) nodesq(e Ev, f func() ([]*zset.SortedSetNode, error)) ([]*zset.SortedSetNode, error) {
	var err error
	var ns []*zset.SortedSetNode
	e["res"] = []Ev{}
	t.S.guard(e, func() {
		ns, err = f()
		e["err"] = err != nil
		if err == nil {
			e["res"] = nodesEv(ns)
		}
	})
	return ns, err
}

func optsOf(exs, exe bool, lim int, nilOpts bool) *zset.GetByScoreRangeOptions {
	if nilOpts {
		return nil
	}
	return &zset.GetByScoreRangeOptions{Limit: lim, ExcludeStart: exs, ExcludeEnd: exe}
}

func (t *Tx) ZRangeByScore(b string, s, en int, exs, exe bool, lim int) ([]*zset.SortedSetNode, error) {
	e := t.ev("zrangebyscore", b)
	e["s"], e["e"], e["exs"], e["exe"], e["lim"] = s, en, exs, exe, lim
	nilOpts := !exs && !exe && lim == 0 && (s+en)%2 == 0
	return t.nodesq(e, func() ([]*zset.SortedSetNode, error) {
		return t.T.ZRangeByScore(b, float64(s), float64(en), optsOf(exs, exe, lim, nilOpts))
	})
}

func (t *Tx) ZCount(b string, s, en int, exs, exe bool, lim int) (int, error) {
	var err error
	var n int
	e := t.ev("zcount", b)
	e["s"], e["e"], e["exs"], e["exe"], e["lim"], e["n"] = s, en, exs, exe, lim, 0
	t.S.guard(e, func() {
		n, err = t.T.ZCount(b, float64(s), float64(en), optsOf(exs, exe, lim, false))
		e["err"] = err != nil
		e["n"] = n
	})
	return n, err
}

func (t *Tx) ZRangeByRank(b string, s, en int) ([]*zset.SortedSetNode, error) {
	e := t.ev("zrangebyrank", b)
	e["s"], e["e"] = s, en
	return t.nodesq(e, func() ([]*zset.SortedSetNode, error) { return t.T.ZRangeByRank(b, s, en) })
}

func (t *Tx) intq(e Ev, f func() (int, error)) (int, error) {
	var err error
	var n int
	e["n"] = 0
	t.S.guard(e, func() { n, err = f(); e["err"] = err != nil; e["n"] = n })
	return n, err
}

func (t *Tx) ZRank(b string, k []byte) (int, error) {
	e := t.ev("zrank", b)
	e["k"] = K(k)
	return t.intq(e, func() (int, error) { return t.T.ZRank(b, k) })
}
func (t *Tx) ZRevRank(b string, k []byte) (int, error) {
	e := t.ev("zrevrank", b)
	e["k"] = K(k)
	return t.intq(e, func() (int, error) { return t.T.ZRevRank(b, k) })
}
func (t *Tx) ZCard(b string) (int, error) {
	return t.intq(t.ev("zcard", b), func() (int, error) { return t.T.ZCard(b) })
}

func (t *Tx) ZScore(b string, k []byte) (float64, error) {
	var err error
	var f float64
	e := t.ev("zscore", b)
	e["k"], e["s"] = K(k), 0
	t.S.guard(e, func() { f, err = t.T.ZScore(b, k); e["err"] = err != nil; e["s"] = ScoreInt(f) })
	return f, err
}

func (t *Tx) ZMembers(b string) (map[string]*zset.SortedSetNode, error) {
	var err error
	var m map[string]*zset.SortedSetNode
	e := t.ev("zmembers", b)
	e["res"] = []Ev{}
	t.S.guard(e, func() {
		m, err = t.T.ZMembers(b)
		e["err"] = err != nil
		if err == nil {
			ks := make([]string, 0, len(m))
			for k := range m {
				ks = append(ks, k)
			}
			sort.Strings(ks)
			out := make([]Ev, 0, len(ks))
			for _, k := range ks {
				n := nodeEv(m[k])
				if m[k] != nil && m[k].Key() != k {
					n["v"] = "<dict key mismatch>"
				}
				out = append(out, n)
			}
			e["res"] = out
		}
	})
	return m, err
}

// ---------------------------------------------------------------- observation

// ObserveDB reads everything a reader can see of db (over universe u) in one
// read-only transaction and returns it in the trace's observation format.
func ObserveDB(db *nutsdb.DB, u *Universe) (o Ev, err error) {
	defer func() {
		if r := recover(); r != nil {
			err = fmt.Errorf("panic during observation: %v", r)
			if os.Getenv("VERIF_STACK") != "" {
				fmt.Fprintf(os.Stderr, "panic during observation: %v\n%s\n", r, debug.Stack())
			}
		}
	}()
	kv := []Ev{}
	ls := []Ev{}
	st := []Ev{}
	zs := []Ev{}
	err = db.View(func(tx *nutsdb.Tx) error {
		for _, b := range u.KvBuckets {
			es, e := tx.GetAll(b)
			if e != nil {
				continue
			}
			for _, x := range es {
				if x == nil {
					kv = append(kv, Ev{"b": b, "k": []int{}, "v": "<nil entry>"})
					continue
				}
				kv = append(kv, Ev{"b": b, "k": K(x.Key), "v": V(x.Value)})
			}
		}
		for _, b := range u.LsBuckets {
			for _, k := range u.LsKeys {
				l, e := tx.LRange(b, []byte(k), 0, -1)
				if e != nil || len(l) == 0 {
					continue
				}
				ls = append(ls, Ev{"b": b, "k": k, "vals": Strs(l)})
			}
		}
		for _, b := range u.StBuckets {
			for _, k := range u.StKeys {
				l, e := tx.SMembers(b, []byte(k))
				if e != nil || len(l) == 0 {
					continue
				}
				v := Strs(l)
				sort.Strings(v)
				st = append(st, Ev{"b": b, "k": k, "vals": v})
			}
		}
		for _, b := range u.ZsBuckets {
			ns, e := tx.ZRangeByRank(b, 1, -1)
			if e != nil || len(ns) == 0 {
				continue
			}
			zs = append(zs, Ev{"b": b, "nodes": nodesEv(ns)})
		}
		return nil
	})
	if err != nil {
		return nil, err
	}
	return Ev{"kv": kv, "ls": ls, "st": st, "zs": zs}, nil
}

// Obs records a full observation of the running database.
func (s *Sess) Obs() {
	e := Ev{"op": "obs"}
	s.guard(e, func() {
		o, err := ObserveDB(s.DB, s.U)
		if err != nil {
			e["panic"] = err.Error()
			s.Panics++
			return
		}
		e["o"] = o
	})
}

// CopyDir copies a database directory (all regular files, recursively).
func CopyDir(src, dst string) error {
	ents, err := os.ReadDir(src)
	if err != nil {
		return err
	}
	if err := os.MkdirAll(dst, 0755); err != nil {
		return err
	}
	for _, en := range ents {
		sp, dp := src+"/"+en.Name(), dst+"/"+en.Name()
		if en.IsDir() {
			if err := CopyDir(sp, dp); err != nil {
				return err
			}
			continue
		}
		b, err := os.ReadFile(sp)
		if err != nil {
			return err
		}
		if err := os.WriteFile(dp, b, 0644); err != nil {
			return err
		}
	}
	return nil
}

// ObserveCopy opens dir (a copy of a database directory) with opt, observes it
// and closes it; used for shadow reopens, backups and crash images.
func ObserveCopy(opt nutsdb.Options, dir string, u *Universe) (o Ev, err error) {
	defer func() {
		if r := recover(); r != nil {
			err = fmt.Errorf("panic: %v", r)
		}
	}()
	opt.Dir = dir
	db, err := nutsdb.Open(opt)
	if err != nil {
		return nil, err
	}
	defer db.Close()
	return ObserveDB(db, u)
}

// Backup calls DB.Backup into dir, opens the copy with the same options and
// records what it shows (quiescent backup, C18).
func (s *Sess) Backup(dir string) {
	e := Ev{"op": "backup"}
	s.guard(e, func() {
		os.RemoveAll(dir)
		err := s.DB.Backup(dir)
		e["err"] = err != nil
		e["o"] = Ev{"kv": []Ev{}, "ls": []Ev{}, "st": []Ev{}, "zs": []Ev{}}
		if err != nil {
			e["msg"] = err.Error()
			return
		}
		o, err := ObserveCopy(s.Opt, dir, s.U)
		if err != nil {
			e["err"], e["msg"] = true, err.Error()
		} else {
			e["o"] = o
		}
		os.RemoveAll(dir)
	})
}

// Shadow records a shadow reopen: the directory is copied and the copy is
// opened and observed.
func (s *Sess) Shadow(tmp string) {
	e := Ev{"op": "shadow"}
	s.guard(e, func() {
		os.RemoveAll(tmp)
		if err := CopyDir(s.Opt.Dir, tmp); err != nil {
			panic("harness: copy failed: " + err.Error())
		}
		if k := os.Getenv("VERIF_KEEP_SHADOW_AT"); k != "" && k == fmt.Sprint(s.R.N+1) {
			CopyDir(tmp, os.Getenv("VERIF_KEEP_SHADOW_DIR")) // debugging aid: keep the copy taken for trace line k
		}
		o, err := ObserveCopy(s.Opt, tmp, s.U)
		e["err"] = err != nil
		if err != nil {
			e["msg"] = err.Error()
			e["o"] = Ev{"kv": []Ev{}, "ls": []Ev{}, "st": []Ev{}, "zs": []Ev{}}
		} else {
			e["o"] = o
		}
		os.RemoveAll(tmp)
	})
}
