// dump: prints the records of the data files of a nutsdb directory (debugging aid).
package main

import (
	"fmt"
	"os"
	"path/filepath"
	"sort"
	"strconv"
	"strings"

	"github.com/xujiajun/nutsdb"
)

func main() {
	dir := os.Args[1]
	seg, _ := strconv.ParseInt(os.Args[2], 10, 64)
	ents, _ := os.ReadDir(dir)
	var ids []int
	for _, e := range ents {
		if strings.HasSuffix(e.Name(), ".dat") {
			n, _ := strconv.Atoi(strings.TrimSuffix(e.Name(), ".dat"))
			ids = append(ids, n)
		}
	}
	sort.Ints(ids)
	for _, id := range ids {
		p := filepath.Join(dir, fmt.Sprintf("%d.dat", id))
		df, err := nutsdb.NewDataFile(p, seg, nutsdb.FileIO)
		if err != nil {
			fmt.Println("open", p, err)
			continue
		}
		off := 0
		for int64(off) < seg {
			e, err := df.ReadAt(off)
			if err != nil {
				fmt.Printf("%d.dat @%d: error %v\n", id, off, err)
				break
			}
			if e == nil {
				fmt.Printf("%d.dat @%d: end\n", id, off)
				break
			}
			b, _, _, flag, status, ds, txid := nutsdb.VerifEntryFields(e)
			fmt.Printf("%d.dat @%d: tx=%d st=%d ds=%d flag=%d b=%q k=%q v=%q\n", id, off, txid, status, ds, flag, b, e.Key, e.Value)
			off += int(e.Size())
		}
	}
}
