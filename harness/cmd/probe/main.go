package main

import (
	"fmt"
	"os"

	"github.com/xujiajun/nutsdb"
	"verifharness/internal/hx"
)

func main() {
	dir := "/tmp/probe-db"
	os.RemoveAll(dir)
	opt := nutsdb.DefaultOptions
	opt.Dir = dir
	opt.SegmentSize = 192
	opt.SyncEnable = false
	fs := hx.NewFSObs(dir)
	db, _ := nutsdb.Open(opt)
	z := func(k string, s float64, v string) {
		db.Update(func(tx *nutsdb.Tx) error { return tx.ZAdd("z1", []byte(k), s, []byte(v)) })
	}
	z("a", -1, "")
	z("b", 5, "x")
	z("c", 6, "x")
	z("d", 7, "x") // rotations
	z("a", 1, "b") // the newer record of a, in a later file
	z("e", 8, "x")
	z("f", 9, "x")
	show := func(when string) {
		db.View(func(tx *nutsdb.Tx) error {
			n, err := tx.ZGetByKey("z1", []byte("a"))
			if err == nil {
				fmt.Printf("%s: a = score %v value %q\n", when, n.Score(), n.Value)
			} else {
				fmt.Println(when, err)
			}
			return nil
		})
	}
	show("before")
	cnt := 0
	fs.Fault = func(m *hx.Mut) (bool, int) {
		if m.Op != "write" {
			return false, 0
		}
		cnt++
		return cnt == 2, 27
	}
	os.Setenv("VERIF_FSLOG", "1")
	fmt.Println("merge 1:", db.Merge())
	fs.Fault = nil
	show("after failed merge")
	fmt.Println("merge 2:", db.Merge())
	show("after merge 2")
	db.Close()
	db, _ = nutsdb.Open(opt)
	show("after reopen")
}
