package main

import (
	"fmt"
	"regexp"
	"sort"
	"strings"

	"github.com/xujiajun/nutsdb"
	"verifharness/internal/hx"
)

// histBPTree: component check of bptree.go on its own, with enough keys for
// several levels of splits (order 8).  The tree is an ordered map from key to
// the last inserted record; tombstones are ordinary records at this level
// (value "<del>").  The calls are recorded in the same event format as the
// transactional KV API, so NutsTrace / KVSpec judge them: batches of inserts
// are bracketed as a committed write transaction on bucket "t".
func (g *gen) histBPTree() {
	rec := g.s.R
	var uni []string
	for i := 0; i < 60; i++ {
		uni = append(uni, fmt.Sprintf("k%02d", i))
	}
	for _, p := range []string{"a", "ab", "abc", "abcd", "b", "ba", "k0", "k1", "k10x", "k5", "k59z", "z", "zz"} {
		uni = append(uni, p)
	}
	for i := 0; i < 40; i++ {
		uni = append(uni, fmt.Sprintf("ab%c%c", 'a'+i%7, 'a'+i/7))
	}
	sort.Strings(uni)
	now := func() int64 { return rec.Now() }
	emit := func(e hx.Ev) {
		e["t0"], e["t1"] = now(), now()
		rec.Emit(e)
	}
	rec.Emit(hx.Ev{"op": "reset", "family": "bptree", "hist": g.hist})
	tree := nutsdb.NewTree()
	call := func(e hx.Ev, f func()) {
		defer func() {
			if r := recover(); r != nil {
				e["panic"] = fmt.Sprint(r)
				e["err"] = true
				g.s.Panics++
			}
			emit(e)
		}()
		f()
	}
	resOf := func(rs nutsdb.Records) []hx.Ev {
		out := make([]hx.Ev, 0, len(rs))
		for _, r := range rs {
			if r == nil || r.E == nil {
				out = append(out, hx.Ev{"k": []int{}, "v": "<nil entry>"})
				continue
			}
			out = append(out, hx.Ev{"k": hx.K(r.E.Key), "v": string(r.E.Value)})
		}
		return out
	}
	txn := 0
	for step := 0; step < g.c.Steps; step++ {
		txn++
		emit(hx.Ev{"op": "begin", "w": true, "err": false, "id": fmt.Sprintf("bt%d-%d", g.hist, txn)})
		n := 5 + g.r.Intn(25)
		for j := 0; j < n; j++ {
			k := pick(g.r, uni)
			v := fmt.Sprintf("v%d.%d", step, j)
			flag := nutsdb.DataSetFlag
			if g.r.Intn(6) == 0 {
				v, flag = "<del>", nutsdb.DataDeleteFlag
			}
			e := hx.Ev{"op": "put", "b": "t", "k": hx.Ks(k), "v": v, "ttl": 0, "tsLo": 0, "tsHi": 0}
			call(e, func() {
				err := tree.Insert([]byte(k), &nutsdb.Entry{Key: []byte(k), Value: []byte(v)}, nutsdb.VerifNewHint([]byte(k), flag), true)
				e["err"] = err != nil
			})
		}
		emit(hx.Ev{"op": "commit", "err": false})
		txn++
		emit(hx.Ev{"op": "begin", "w": false, "err": false, "id": fmt.Sprintf("bt%d-%d", g.hist, txn)})
		for j := 0; j < 25; j++ {
			k := pick(g.r, uni)
			if g.r.Intn(5) == 0 {
				k = k + "!" // never inserted
			}
			e := hx.Ev{"op": "get", "b": "t", "k": hx.Ks(k), "v": ""}
			call(e, func() {
				r, err := tree.Find([]byte(k))
				e["err"] = err != nil
				if err == nil {
					if r == nil || r.E == nil {
						e["v"] = "<nil entry>"
					} else {
						e["v"] = string(r.E.Value)
						if string(r.E.Key) != k {
							e["v"] = "<foreign key " + string(r.E.Key) + ">"
						}
					}
				}
			})
		}
		bounds := append([]string{"", "a", "ab", "abz", "k", "k3", "k30", "k59z", "zzz", "\xff"}, uni[g.r.Intn(len(uni))], uni[g.r.Intn(len(uni))])
		for j := 0; j < 5; j++ {
			s, en := pick(g.r, bounds), pick(g.r, bounds)
			e := hx.Ev{"op": "range", "b": "t", "s": hx.Ks(s), "e": hx.Ks(en), "res": []hx.Ev{}}
			call(e, func() {
				rs, err := tree.Range([]byte(s), []byte(en))
				e["err"] = err != nil
				if err == nil {
					e["res"] = resOf(rs)
				}
			})
		}
		prefixes := []string{"", "a", "ab", "abc", "k", "k1", "k5", "zz", "q"}
		for j := 0; j < 5; j++ {
			p := pick(g.r, prefixes)
			off, lim := g.r.Intn(12), g.r.Intn(14)-1
			if g.r.Intn(3) == 0 {
				off = g.r.Intn(len(uni) + 2)
			}
			e := hx.Ev{"op": "pscan", "b": "t", "p": hx.Ks(p), "off": off, "lim": lim, "res": []hx.Ev{}}
			call(e, func() {
				rs, _, err := tree.PrefixScan([]byte(p), off, lim)
				e["err"] = err != nil
				if err == nil {
					e["res"] = resOf(rs)
				}
			})
			reg := pick(g.r, []string{".*", "^[0-9]+$", "a", "^$", "("})
			rgx, rerr := regexp.Compile(reg)
			ms := [][]int{}
			if rerr == nil {
				for _, k := range uni {
					if strings.HasPrefix(k, p) && rgx.MatchString(strings.TrimPrefix(k, p)) {
						ms = append(ms, hx.Ks(k))
					}
				}
			}
			lim2 := g.r.Intn(14) - 1
			e2 := hx.Ev{"op": "psscan", "b": "t", "p": hx.Ks(p), "off": 0, "lim": lim2, "ms": ms, "badre": rerr != nil, "reg": reg, "res": []hx.Ev{}}
			call(e2, func() {
				rs, _, err := tree.PrefixSearchScan([]byte(p), reg, 0, lim2)
				e2["err"] = err != nil
				if err == nil {
					e2["res"] = resOf(rs)
				}
			})
		}
		if g.r.Intn(2) == 0 {
			e := hx.Ev{"op": "getall", "b": "t", "res": []hx.Ev{}}
			call(e, func() {
				rs, err := tree.All()
				e["err"] = err != nil
				if err == nil {
					e["res"] = resOf(rs)
				}
			})
		}
		emit(hx.Ev{"op": "rollback", "err": false})
		if g.s.Panics > 0 {
			return
		}
	}
}
