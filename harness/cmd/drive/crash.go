package main

import (
	"bytes"
	"path/filepath"
	"encoding/json"
	"fmt"
	"os"
	"os/exec"
	"sync"
	"time"

	"github.com/xujiajun/nutsdb"
	"verifharness/internal/hx"
)

// crash families (C10, C11, C16): a workload is executed with the file
// observer recording every file mutation; afterwards the directory is
// rebuilt for every mutation point (and torn / power-loss variants), the real
// Open runs on each image in a child process, and what it served is recorded
// as a "crash" event placed in the trace just before the call during which
// the mutation happened.  The specification decides what Open may serve.

type crashOpts struct {
	kinds   []string
	merges  bool // C16: merges in the workload, crash points inside Merge only
	power   bool // C11: power-loss images (SyncEnable forced on)
	allTorn bool
	sameMs  bool // back-to-back failed + successful transactions
	wmerge  bool // Merge calls in the workload, crash points everywhere
	many    bool // small segments; the first Merge waits until more than ten data files exist (file ids of different lengths)
}

type imgResult struct {
	Err bool   `json:"err"`
	Msg string `json:"msg"`
	O   hx.Ev  `json:"o"`
}

var emptyObs = hx.Ev{"kv": []hx.Ev{}, "ls": []hx.Ev{}, "st": []hx.Ev{}, "zs": []hx.Ev{}}

// openImageMain is the child: open the image directory, observe, print JSON.
func openImageMain(dir string, mode, rw, load int, seg int64, sync bool, ds bool) {
	opt := nutsdb.DefaultOptions
	opt.EntryIdxMode = nutsdb.EntryIdxMode(mode)
	opt.RWMode = nutsdb.RWMode(rw)
	opt.StartFileLoadingMode = nutsdb.RWMode(load)
	opt.SegmentSize = seg
	opt.SyncEnable = sync
	u := dsUniverse(true)
	if !ds {
		u = &hx.Universe{KvBuckets: []string{"b1", "b2"}}
	}
	res := imgResult{O: emptyObs}
	o, err := hx.ObserveCopy(opt, dir, u)
	if err != nil {
		res.Err, res.Msg = true, err.Error()
	} else {
		res.O = o
	}
	b, _ := json.Marshal(res)
	os.Stdout.Write(b)
}

func (g *gen) openImage(files map[string][]byte, dir string, ds bool) imgResult {
	mk := []string{}
	if g.s.Opt.EntryIdxMode == nutsdb.HintBPTSparseIdxMode {
		mk = []string{"bpt/root", "bpt/txid", "meta/bucket"}
	}
	if err := hx.WriteImage(files, dir, mk); err != nil {
		fmt.Fprintln(os.Stderr, "harness: cannot write image:", err)
		os.Exit(2)
	}
	o := g.s.Opt
	cmd := exec.Command(os.Args[0], "-openimage", dir, "-imode", fmt.Sprint(int(o.EntryIdxMode)), "-irw", fmt.Sprint(int(o.RWMode)),
		"-iload", fmt.Sprint(int(o.StartFileLoadingMode)), "-iseg", fmt.Sprint(o.SegmentSize), fmt.Sprintf("-isync=%v", o.SyncEnable), fmt.Sprintf("-ids=%v", ds))
	var out, errb bytes.Buffer
	cmd.Stdout, cmd.Stderr = &out, &errb
	err := cmd.Run()
	for attempt := 0; err != nil && attempt < 3; attempt++ {
		if _, ok := err.(*exec.ExitError); ok {
			break // the child ran and died: that is an observation
		}
		// the child could not be started (fork/exec failure under load): not an observation
		time.Sleep(200 * time.Millisecond)
		out.Reset()
		errb.Reset()
		cmd = exec.Command(cmd.Path, cmd.Args[1:]...)
		cmd.Stdout, cmd.Stderr = &out, &errb
		err = cmd.Run()
	}
	os.RemoveAll(dir)
	var r imgResult
	if err != nil {
		if _, ok := err.(*exec.ExitError); !ok {
			fmt.Fprintln(os.Stderr, "harness: cannot start the image-opening child process:", err)
			os.Exit(2)
		}
	}
	if err != nil || json.Unmarshal(out.Bytes(), &r) != nil {
		tail := errb.String()
		if len(tail) > 300 {
			tail = tail[:300]
		}
		return imgResult{Err: true, Msg: fmt.Sprintf("Open killed the process: %v %s", err, tail), O: emptyObs}
	}
	return r
}

func (g *gen) histCrash(o crashOpts) {
	hasDS := false
	for _, k := range o.kinds {
		if k != "kv" {
			hasDS = true
		}
	}
	mode := nutsdb.HintKeyValAndRAMIdxMode
	if !hasDS {
		mode = modeOf(g.c.Mode, g.r)
	}
	g.u = dsUniverse(true)
	if !hasDS {
		g.u = &hx.Universe{KvBuckets: []string{"b1", "b2"}}
	}
	seg := int64(192 + g.r.Intn(4)*96)
	if o.many {
		seg = 160
	}
	dir := fmt.Sprintf("%s/db-%d", g.c.Tmp, g.hist)
	os.RemoveAll(dir)
	obs := hx.NewFSObs(dir)
	defer obs.Uninstall()
	rec := g.s.R
	rec.Hold = true
	obs.MarkFn = rec.HeldLen
	g.newSess(dir, mode, rwOf(g.c.RW, g.r), seg)
	if o.power {
		g.s.Opt.SyncEnable = true
	}
	g.s.R.Emit(hx.Ev{"op": "reset", "mode": int(mode), "rw": int(g.s.Opt.RWMode), "seg": seg, "hist": g.hist,
		"sync": g.s.Opt.SyncEnable, "load": int(g.s.Opt.StartFileLoadingMode), "family": g.c.Family})
	if err := g.s.OpenFirst(); err != nil {
		fmt.Fprintln(os.Stderr, "harness: first open failed:", err)
		os.Exit(2)
	}
	big := make([]byte, seg)
	for i := range big {
		big[i] = 'x'
	}
	for i := 0; i < g.c.Steps; i++ {
		nops := 1
		if g.r.Intn(100) < 55 {
			nops = 2 + g.r.Intn(3)
		}
		t, err := g.s.Begin(true)
		if err != nil {
			break
		}
		fate := "commit"
		if g.r.Intn(100) < 15 {
			fate = pick(g.r, []string{"rollback", "oversize"})
		}
		bigAt := -1
		if fate == "oversize" {
			bigAt = g.r.Intn(nops)
		}
		for j := 0; j < nops; j++ {
			if j == bigAt {
				t.Put(pick(g.r, g.u.KvBuckets), []byte(pick(g.r, kvKeys)), big, 0)
			} else {
				g.mutOne(t, o.kinds)
			}
		}
		if fate == "rollback" {
			t.Rollback()
		} else {
			t.Commit(func() int { return 0 })
			if fate == "oversize" && o.sameMs {
				// immediately (same millisecond) a transaction that commits
				g.update(func(t *hx.Tx) { g.mutOne(t, o.kinds) })
			}
		}
		if g.s.Panics > 0 {
			break
		}
		if (o.merges || o.wmerge) && g.r.Intn(100) < 25 {
			nfiles := 0
			if ents, err := os.ReadDir(dir); err == nil {
				for _, en := range ents {
					if filepath.Ext(en.Name()) == ".dat" {
						nfiles++
					}
				}
			}
			if !o.many || nfiles > 10 {
				g.s.MergeObs(dir + "-shadow")
			}
		}
		if g.r.Intn(10) == 0 {
			g.s.Close()
			if g.s.Open() != nil {
				break
			}
		}
	}
	if g.s.DB != nil {
		g.s.Obs()
		g.s.Close()
	}
	if err := obs.Verify(); err != nil {
		fmt.Fprintln(os.Stderr, "harness: file observer out of sync with the directory:", err)
		os.Exit(2)
	}
	obs.Uninstall()
	held := rec.Evs
	opOf := func(mark int) string {
		if mark < len(held) {
			if s, ok := held[mark]["op"].(string); ok {
				return s
			}
		}
		return "end"
	}
	// enumerate the images
	type job struct {
		spec   hx.ImgSpec
		mark   int
		during string
		kind   string
		res    imgResult
		t0, t1 int64
	}
	var jobs []*job
	muts := obs.Muts
	add := func(spec hx.ImgSpec, mark int, kind string) {
		d := opOf(mark)
		if o.merges && d != "merge" {
			return
		}
		jobs = append(jobs, &job{spec: spec, mark: mark, during: d, kind: kind})
	}
	for k := 0; k <= len(muts); k++ {
		// the image after k complete mutations; it differs from k-1 only if
		// mutation k-1 changed a file
		changed := k == 0 || muts[k-1].Op == "open" || muts[k-1].Op == "truncate" || muts[k-1].Op == "write" || muts[k-1].Op == "remove"
		mark := len(held)
		if k < len(muts) {
			mark = muts[k].Mark
		}
		if k > 0 && k == len(muts) {
			mark = muts[k-1].Mark + 1
		}
		if changed {
			add(hx.ImgSpec{K: k, Torn: -1}, mark, "proc")
		}
		if k < len(muts) && muts[k].Op == "write" {
			for _, p := range hx.TornPoints(&muts[k], o.allTorn) {
				add(hx.ImgSpec{K: k, Torn: p}, muts[k].Mark, "proc")
			}
		}
		if o.power {
			// the first k mutations were issued; then power is lost
			if changed || (k > 0 && muts[k-1].Op == "sync") {
				for _, kc := range []bool{false, true} {
					add(hx.ImgSpec{K: k, Torn: -1, Power: true, Keep: -1, KeepCreate: kc, UndoRemove: kc}, mark, "power")
				}
			}
			if k > 0 && muts[k-1].Op == "write" {
				for _, p := range hx.TornPoints(&muts[k-1], o.allTorn) {
					add(hx.ImgSpec{K: k, Torn: -1, Power: true, Keep: 1, KeepTorn: p, KeepCreate: true}, mark, "power")
				}
			}
		}
	}
	// a crash "during" the call at index mark is placed before that call's
	// event; an image taken after the call's last mutation belongs to the
	// state after the call, i.e. before the next event
	var wg sync.WaitGroup
	sem := make(chan struct{}, 4)
	for i, j := range jobs {
		wg.Add(1)
		sem <- struct{}{}
		go func(i int, j *job) {
			defer wg.Done()
			defer func() { <-sem }()
			files := obs.BuildImage(j.spec)
			j.t0 = rec.Now()
			j.res = g.openImage(files, fmt.Sprintf("%s/img-%d-%d", g.c.Tmp, g.hist, i), hasDS)
			j.t1 = rec.Now()
		}(i, j)
	}
	wg.Wait()
	byMark := map[int][]*job{}
	for _, j := range jobs {
		byMark[j.mark] = append(byMark[j.mark], j)
	}
	rec.Release(func(i int) []hx.Ev {
		var out []hx.Ev
		for _, j := range byMark[i] {
			out = append(out, hx.Ev{"op": "crash", "k": j.spec.K, "torn": j.spec.Torn, "kind": j.kind, "during": j.during,
				"keep": j.spec.Keep, "keeptorn": j.spec.KeepTorn, "keepcreate": j.spec.KeepCreate,
				"err": j.res.Err, "msg": j.res.Msg, "o": j.res.O, "t0": j.t0, "t1": j.t1})
		}
		return out
	})
	g.images += len(jobs)
	os.RemoveAll(dir)
}

// histCrashCont (C10, C09): the history goes on after the crash.  A workload
// runs; one file-mutation point (possibly with the write torn) is chosen; the
// directory as it was at that point becomes the database; the real Open
// recovers it ("crashopen" event with a full observation), more transactions
// are committed - among them one that does not fit into the active segment,
// so that whatever the crash left at its tail is sealed into a file that is
// no longer the last one - and the database is closed and reopened again.
func (g *gen) histCrashCont(kinds []string) {
	hasDS := false
	for _, k := range kinds {
		hasDS = hasDS || k != "kv"
	}
	mode := nutsdb.HintKeyValAndRAMIdxMode
	if !hasDS {
		mode = modeOf(g.c.Mode, g.r)
	}
	g.u = dsUniverse(true)
	if !hasDS {
		g.u = &hx.Universe{KvBuckets: []string{"b1", "b2"}}
	}
	seg := int64(192 + g.r.Intn(4)*96)
	dir := fmt.Sprintf("%s/db-%d", g.c.Tmp, g.hist)
	os.RemoveAll(dir)
	obs := hx.NewFSObs(dir)
	rec := g.s.R
	rec.Hold = true
	obs.MarkFn = rec.HeldLen
	g.newSess(dir, mode, rwOf(g.c.RW, g.r), seg)
	g.s.R.Emit(hx.Ev{"op": "reset", "mode": int(mode), "rw": int(g.s.Opt.RWMode), "seg": seg, "hist": g.hist,
		"sync": g.s.Opt.SyncEnable, "load": int(g.s.Opt.StartFileLoadingMode), "family": g.c.Family})
	if err := g.s.OpenFirst(); err != nil {
		fmt.Fprintln(os.Stderr, "harness: first open failed:", err)
		os.Exit(2)
	}
	n := 3 + g.r.Intn(g.c.Steps)
	for i := 0; i < n; i++ {
		nops := 1 + g.r.Intn(4)
		g.update(func(t *hx.Tx) {
			for j := 0; j < nops; j++ {
				g.mutOne(t, kinds)
			}
		})
		if g.s.Panics > 0 {
			break
		}
	}
	g.s.Close()
	obs.Uninstall()
	held := rec.TakeHeld()
	muts := obs.Muts
	// choose the crash point among the writes (and their torn variants) and the other mutations
	var cands []hx.ImgSpec
	for k := 1; k <= len(muts); k++ {
		cands = append(cands, hx.ImgSpec{K: k, Torn: -1})
		if k < len(muts) && muts[k].Op == "write" {
			for _, p := range hx.TornPoints(&muts[k], true) {
				cands = append(cands, hx.ImgSpec{K: k, Torn: p}, hx.ImgSpec{K: k, Torn: p}) // torn tails are the interesting ones
			}
		}
	}
	spec := cands[g.r.Intn(len(cands))]
	mark := len(held)
	if spec.K < len(muts) {
		mark = muts[spec.K].Mark
	} else if spec.Torn < 0 && spec.K == len(muts) {
		mark = muts[spec.K-1].Mark + 1
	}
	if spec.Torn < 0 && spec.K < len(muts) && spec.K > 0 && muts[spec.K-1].Mark < mark {
		// the image lies between two calls: every call before `mark` has returned
	}
	if mark > len(held) {
		mark = len(held)
	}
	// the calls that had returned (a call in progress at the crash is dropped:
	// if it is a Commit, its transaction is the in-flight one)
	for _, e := range held[:mark] {
		rec.Emit(e)
	}
	// drop a trailing "close": the process died, it did not close the database
	dir2 := dir + "-crashed"
	if err := hx.WriteImage(obs.BuildImage(spec), dir2, nil); err != nil {
		fmt.Fprintln(os.Stderr, "harness: cannot write image:", err)
		os.Exit(2)
	}
	os.RemoveAll(dir)
	g.s.Opt.Dir = dir2
	e := hx.Ev{"op": "crashopen", "k": spec.K, "torn": spec.Torn, "err": false, "o": emptyObs, "t0": rec.Now()}
	func() {
		defer func() {
			if r := recover(); r != nil {
				e["panic"] = fmt.Sprint(r)
				e["err"] = true
				g.s.Panics++
			}
		}()
		db, err := nutsdb.Open(g.s.Opt)
		if err != nil {
			e["err"], e["msg"] = true, err.Error()
			return
		}
		g.s.DB = db
		if o, oerr := hx.ObserveDB(db, g.u); oerr == nil {
			e["o"] = o
		} else {
			e["panic"] = oerr.Error()
		}
	}()
	e["t1"] = rec.Now()
	rec.Emit(e)
	if e["err"] == true || g.s.Panics > 0 {
		os.RemoveAll(dir2)
		return
	}
	// life goes on: small commits, one that needs a new segment, more small ones
	big := make([]byte, seg-60)
	for i := range big {
		big[i] = 'y'
	}
	for i := 0; i < 6; i++ {
		g.update(func(t *hx.Tx) {
			// (in a third of the histories the very first commit is the one that
			// rotates: what the crash left at the tail is then never overwritten)
			if i == g.hist%3 {
				t.Put("b1", []byte("kz"), big, 0)
			} else {
				g.mutOne(t, kinds)
			}
		})
	}
	g.view(func(t *hx.Tx) { g.readSome(t, kinds, true) })
	g.s.Obs()
	g.s.Shadow(dir2 + "-shadow")
	if g.reopenCompare(kinds) {
		g.s.Obs()
		g.s.Close()
	}
	os.RemoveAll(dir2)
	g.images++
}
