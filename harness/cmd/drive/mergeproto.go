package main

import (
	"encoding/binary"
	"fmt"
	"os"
	"sort"
	"strconv"
	"strings"

	"github.com/xujiajun/nutsdb"
	"verifharness/internal/hx"
)

// mergeproto family (C15, C16 at protocol grain): the trace is the stream of
// data-file level events that MergeTrace.tla binds to the actions of
// Merge.tla.  The FS hook reports every creation, record write and removal of
// a data file; the driver only groups them by the public call in progress:
//
//	reset   a fresh directory (file: the first data file)
//	mk      a data file was created outside Merge (rotation)
//	tx      Tx.Commit returned: the records that reached the files completely
//	mbegin  DB.Merge was entered with these data files
//	mscan / mhalf / mcommit / mskip / mremove   one merged file: its live
//	        records were rewritten into a new file by one transaction (mhalf:
//	        the records, mcommit: the commit mark) or there were none (mskip),
//	        then the file was removed (repl: the file created in its place)
//	mend    DB.Merge returned
//	mnone   DB.Merge refused (fewer than two data files)
//	obs     what the process serves (kv) and what a reopen of a copy serves (so)
//	reopen  Close + Open
//
// Key/value only, no TTL, no Sync faults: the subset Merge.tla models.
type mpMut struct {
	op, rel  string
	off      int64
	data     []byte
	written  int
	injected bool
}

var mpKeys = []string{"a", "ab", "b", "k1", "k10"}
var mpBuckets = []string{"b1", "b2"}

func mpID(rel string) int {
	n, _ := strconv.Atoi(strings.TrimSuffix(rel, ".dat"))
	return n
}

// mpDecode turns the bytes of one completely written record into an event record.
func mpDecode(m mpMut) hx.Ev {
	d := m.data
	ks := int(binary.LittleEndian.Uint32(d[12:16]))
	vs := int(binary.LittleEndian.Uint32(d[16:20]))
	flag := binary.LittleEndian.Uint16(d[20:22])
	bs := int(binary.LittleEndian.Uint32(d[26:30]))
	status := binary.LittleEndian.Uint16(d[30:32])
	b := string(d[42 : 42+bs])
	k := string(d[42+bs : 42+bs+ks])
	v := string(d[42+bs+ks : 42+bs+ks+vs])
	kind := "put"
	if flag == nutsdb.DataDeleteFlag {
		kind, v = "del", ""
	}
	return hx.Ev{"file": m.rel, "kind": kind, "k": b + "/" + k, "v": v, "mark": status == 1}
}

func (g *gen) histMergeProto() {
	dir := fmt.Sprintf("%s/mp-%d", g.c.Tmp, g.hist)
	shadow := fmt.Sprintf("%s/mpshadow-%d", g.c.Tmp, g.hist)
	os.RemoveAll(dir)
	opt := nutsdb.DefaultOptions
	opt.Dir = dir
	opt.EntryIdxMode = modeOf(g.c.Mode, g.r)
	opt.RWMode = rwOf(g.c.RW, g.r)
	opt.SegmentSize = int64(110 + 55*g.r.Intn(5))
	opt.SyncEnable = false
	R := g.s.R
	fs := hx.NewFSObs(dir)
	fs.KeepData = false
	defer fs.Uninstall()
	var muts []mpMut
	exists := map[string]bool{}
	fs.OnMut = func(op, rel string, off int64, data []byte, written int, injected bool) {
		if !strings.HasSuffix(rel, ".dat") || strings.Contains(rel, "/") {
			return
		}
		m := mpMut{op: op, rel: rel, off: off, written: written, injected: injected}
		if op == "write" {
			m.data = append([]byte(nil), data...)
		}
		muts = append(muts, m)
	}
	// created reports the data files that the mutations since the last call brought into existence
	take := func() []mpMut { ms := muts; muts = nil; return ms }
	isCreate := func(m mpMut) bool {
		if m.op == "truncate" && !m.injected && !exists[m.rel] {
			exists[m.rel] = true
			return true
		}
		return false
	}
	fatal := func(what string, err error) {
		fmt.Fprintln(os.Stderr, "harness:", what, err)
		os.Exit(2)
	}
	db, err := nutsdb.Open(opt)
	if err != nil {
		fatal("open failed:", err)
	}
	first := ""
	for _, m := range take() {
		if isCreate(m) {
			first = m.rel
		}
	}
	keys := []string{}
	for _, b := range mpBuckets {
		for _, k := range mpKeys {
			keys = append(keys, b+"/"+k)
		}
	}
	R.Emit(hx.Ev{"op": "reset", "family": g.c.Family, "hist": g.hist, "file": first, "keys": keys, "seg": int(opt.SegmentSize), "mode": int(opt.EntryIdxMode), "rw": int(opt.RWMode)})
	observe := func(d *nutsdb.DB) []hx.Ev {
		out := []hx.Ev{}
		d.View(func(tx *nutsdb.Tx) error {
			for _, b := range mpBuckets {
				es, e := tx.GetAll(b)
				if e != nil {
					continue
				}
				for _, x := range es {
					if x == nil {
						out = append(out, hx.Ev{"k": b + "/<nil entry>", "v": ""})
						continue
					}
					out = append(out, hx.Ev{"k": b + "/" + string(x.Key), "v": string(x.Value)})
				}
			}
			return nil
		})
		return out
	}
	emitObs := func() {
		kv := observe(db)
		os.RemoveAll(shadow)
		if err := hx.CopyDir(dir, shadow); err != nil {
			fatal("copy failed:", err)
		}
		o2 := opt
		o2.Dir = shadow
		e := hx.Ev{"op": "obs", "kv": kv, "so": []hx.Ev{}, "serr": false}
		if sdb, err := nutsdb.Open(o2); err != nil {
			e["serr"], e["msg"] = true, err.Error()
		} else {
			e["so"] = observe(sdb)
			sdb.Close()
		}
		os.RemoveAll(shadow)
		take() // the shadow lives outside the observed directory; nothing to report
		R.Emit(e)
	}
	nval := 0
	// torn: data files holding the prefix of a record that a failed write left
	// behind and no later write has covered (Merge cannot read past it)
	torn := map[string]int64{}
	noteTorn := func(m mpMut) {
		if m.op != "write" {
			return
		}
		if m.injected && m.written > 0 {
			torn[m.rel] = m.off
		} else if !m.injected {
			if o, ok := torn[m.rel]; ok && m.off <= o && o < m.off+int64(len(m.data)) {
				delete(torn, m.rel)
			}
		}
	}
	for step := 0; step < g.c.Steps; step++ {
		c := g.r.Intn(100)
		switch {
		case c < 62: // a write transaction
			tx, err := db.Begin(true)
			if err != nil {
				fatal("begin failed:", err)
			}
			n := 1 + g.r.Intn(3)
			for j := 0; j < n; j++ {
				b, k := pick(g.r, mpBuckets), []byte(pick(g.r, mpKeys))
				if g.r.Intn(4) == 0 {
					err = tx.Delete(b, k)
				} else {
					nval++
					err = tx.Put(b, k, []byte(fmt.Sprintf("v%d", nval)), 0)
				}
				if err != nil {
					fatal("put failed:", err)
				}
			}
			fate := g.r.Intn(10)
			if fate == 0 {
				tx.Rollback()
				take()
				continue
			}
			if fate == 1 {
				// fail one record write of this commit (nothing, or a strict prefix, reaches the file)
				at, cnt := g.r.Intn(n), 0
				partial := -1
				if g.r.Intn(2) == 0 {
					partial = 1 + g.r.Intn(40)
				}
				fs.Fault = func(m *hx.Mut) (bool, int) {
					if m.Op != "write" || !strings.HasSuffix(m.Path, ".dat") {
						return false, 0
					}
					cnt++
					return cnt-1 == at, partial
				}
			}
			cerr := tx.Commit()
			fs.Fault = nil
			if cerr != nil {
				tx.Rollback()
			}
			recs := []hx.Ev{}
			for _, m := range take() {
				noteTorn(m)
				if isCreate(m) {
					R.Emit(hx.Ev{"op": "mk", "file": m.rel})
				}
				if m.op == "write" && !m.injected && m.written == len(m.data) {
					recs = append(recs, mpDecode(m))
				}
			}
			R.Emit(hx.Ev{"op": "tx", "err": cerr != nil, "n": n, "recs": recs})
		case c < 80: // Merge
			var files []string
			for f := range exists {
				files = append(files, f)
			}
			sort.Slice(files, func(i, j int) bool { return mpID(files[i]) < mpID(files[j]) })
			merr := db.Merge()
			ms := take()
			if merr != nil && len(files) < 2 {
				R.Emit(hx.Ev{"op": "mnone", "msg": merr.Error()})
				continue
			}
			R.Emit(hx.Ev{"op": "mbegin", "files": files})
			// keep creations, complete record writes and removals; group them by
			// the removal that ends the treatment of one file
			var sig []mpMut
			for _, m := range ms {
				switch {
				case isCreate(m):
					m.op = "create"
					sig = append(sig, m)
				case m.op == "write" && !m.injected && m.written == len(m.data):
					sig = append(sig, m)
				case m.op == "remove" && !m.injected:
					sig = append(sig, m)
				}
			}
			var recs []hx.Ev
			newFile := ""
			for i := 0; i < len(sig); i++ {
				m := sig[i]
				switch m.op {
				case "create":
					newFile = m.rel
				case "write":
					recs = append(recs, mpDecode(m))
				case "remove":
					delete(exists, m.rel)
					R.Emit(hx.Ev{"op": "mscan", "file": m.rel})
					if len(recs) > 0 {
						R.Emit(hx.Ev{"op": "mhalf", "file": newFile, "recs": recs})
						R.Emit(hx.Ev{"op": "mcommit", "marks": marksOK(recs)})
					} else {
						R.Emit(hx.Ev{"op": "mskip"})
					}
					recs, newFile = nil, ""
					// a data file created right after the removal that receives no
					// record replaces the removed active file (a file created for
					// the rewrite of the next file receives records at once)
					repl := ""
					if i+1 < len(sig) && sig[i+1].op == "create" && !(i+2 < len(sig) && sig[i+2].op == "write" && sig[i+2].rel == sig[i+1].rel) {
						repl = sig[i+1].rel
						i++
					}
					R.Emit(hx.Ev{"op": "mremove", "file": m.rel, "repl": repl})
				}
			}
			tornFiles := []string{}
			for f := range torn {
				tornFiles = append(tornFiles, f)
			}
			sort.Strings(tornFiles)
			e := hx.Ev{"op": "mend", "err": merr != nil, "left": len(recs), "torn": tornFiles}
			if merr != nil {
				e["msg"] = merr.Error()
			}
			R.Emit(e)
			emitObs()
		case c < 92:
			emitObs()
		default: // reopen
			if err := db.Close(); err != nil {
				fatal("close failed:", err)
			}
			db, err = nutsdb.Open(opt)
			take()
			e := hx.Ev{"op": "reopen", "err": err != nil}
			if err != nil {
				e["msg"] = err.Error()
				R.Emit(e)
				return
			}
			R.Emit(e)
			emitObs()
		}
	}
	emitObs()
	db.Close()
	take()
	os.RemoveAll(dir)
}

// marksOK: exactly the last record of a rewrite transaction carries the commit mark.
func marksOK(recs []hx.Ev) bool {
	for i, r := range recs {
		if r["mark"].(bool) != (i == len(recs)-1) {
			return false
		}
	}
	return true
}
