// drive: seeded random-history drivers.  They run the real library (built
// with -tags verif), record every call, and never judge a result.
package main

import (
	"encoding/json"
	"flag"
	"fmt"
	"math/rand"
	"os"
	"regexp"
	"strings"
	"time"

	"github.com/xujiajun/nutsdb"
	"verifharness/internal/hx"
)

type cfg struct {
	Family   string
	Seed     int64
	Hist     int // number of histories
	Steps    int // transactions per history
	Out      string
	Tmp      string
	Mode     string // keyval | keyonly | sparse | any
	RW       string // fileio | mmap | any
	Inject   string // self-test: corrupt one recorded result
	Summary  string
	Witness  bool
	AllTorn  bool
	Proto    bool
}

var (
	kvKeys  = []string{"a", "ab", "abc", "abd", "b", "ba", "bab", "c", "ca", "k1", "k10", "k2", "kz"}
	lsKeys  = []string{"l1", "l2"}
	stKeys  = []string{"s1", "s2"}
	zKeys   = []string{"", "a", "ab", "b", "m"}
	vals    = []string{"", "v", "x|y", "|", "a", "b", "val-1", "val-2", "long-value-0123456789"}
	regexes = []string{".*", "^b", "[0-9]+", "b$", "^$", "("}
)

// bucket names that are prefixes of each other and of keys ("a"+"bab" =
// "ab"+"ab"), the empty name, and a name containing the list separator
var isoBuckets = []string{"a", "ab", "", "a|b", "b"}

type gen struct {
	c    cfg
	r    *rand.Rand
	s    *hx.Sess
	u    *hx.Universe
	hist int
	// noSMove: set histories without SMove (whose known deviation F-C06-2
	// makes memory and log disagree, which Merge then turns into data loss)
	noSMove bool
	noSPop  bool
	managedToo bool // use DB.Update / DB.View for part of the transactions
	oneBucket bool
	paged   bool
	focus   map[string]string
	plain   bool // pagemerge family: puts without TTL and deletes of existing keys only, with merges
	putOnly bool // pagemerge family, phase after a Merge: puts only
	flip    bool // the second half of a twin: every bucket choice is moved to the next bucket
	images  int
	seed0   int64
	configs int
	lockEvs []hx.Ev
	ntx     int
	productDistinct int
	protos  [2]*hx.Recorder
	// forceOpt, when set, overrides the randomly chosen storage options (C19)
	forceOpt func(o *nutsdb.Options)
}

func pick(r *rand.Rand, xs []string) string { return xs[r.Intn(len(xs))] }

// protoRec returns the protocol-trace recorder for histories with the given SyncEnable.
func (g *gen) protoRec(sync bool) *hx.Recorder {
	i := 0
	if sync {
		i = 1
	}
	if g.protos[i] == nil {
		r, err := hx.NewRecorder(fmt.Sprintf("%s.proto%d", g.c.Out, i))
		if err != nil {
			fmt.Fprintln(os.Stderr, "harness:", err)
			os.Exit(2)
		}
		g.protos[i] = r
	}
	return g.protos[i]
}

// fpick picks from xs, but inside a "focused" transaction it returns the
// transaction's single target for this slot most of the time, so that the
// operations of one transaction hit the same bucket/key/member repeatedly
// (add-remove-add of one member, pop of what was just pushed, ...).
func (g *gen) fpick(slot string, xs []string) string {
	if g.focus != nil {
		if v, ok := g.focus[slot]; ok && g.r.Intn(10) < 9 {
			return v
		}
		v := pick(g.r, xs)
		if _, ok := g.focus[slot]; !ok {
			g.focus[slot] = v
		}
		return v
	}
	return pick(g.r, xs)
}

// bpick picks a bucket like fpick; in the second execution of a "twin" (the
// same call once more, right behind the first, with only the bucket changed)
// it returns the bucket after the one the first execution chose.
func (g *gen) bpick(slot string, xs []string) string {
	v := g.fpick(slot, xs)
	if g.flip {
		for i, x := range xs {
			if x == v {
				return xs[(i+1)%len(xs)]
			}
		}
	}
	return v
}

func modeOf(s string, r *rand.Rand) nutsdb.EntryIdxMode {
	switch s {
	case "keyval":
		return nutsdb.HintKeyValAndRAMIdxMode
	case "keyonly":
		return nutsdb.HintKeyAndRAMIdxMode
	case "sparse":
		return nutsdb.HintBPTSparseIdxMode
	}
	if r.Intn(2) == 0 {
		return nutsdb.HintKeyValAndRAMIdxMode
	}
	return nutsdb.HintKeyAndRAMIdxMode
}

func rwOf(s string, r *rand.Rand) nutsdb.RWMode {
	switch s {
	case "fileio":
		return nutsdb.FileIO
	case "mmap":
		return nutsdb.MMap
	}
	return nutsdb.RWMode(r.Intn(2))
}

func (g *gen) val() []byte { return []byte(pick(g.r, vals)) }

// kvWrite performs one random KV write inside t.
func (g *gen) kvWrite(t *hx.Tx) {
	b := g.bpick("kvb", g.u.KvBuckets)
	k := []byte(g.fpick("kvk", kvKeys))
	now := uint64(time.Now().Unix())
	if g.plain {
		// only operations that keep the tree's count of valid keys exact: a put
		// without TTL, or the delete of a key that is there
		if _, err := t.T.Get(b, k); err == nil && !g.putOnly && g.r.Intn(3) == 0 {
			t.Delete(b, k)
		} else {
			t.Put(b, k, g.val(), 0)
		}
		return
	}
	switch g.r.Intn(10) {
	case 0, 1:
		t.Delete(b, k)
	case 2:
		t.PutTS(b, k, g.val(), 500, now-1000) // already expired
	case 3:
		ts := now - 1000
		if g.r.Intn(2) == 0 {
			ts = now + 3600 // a timestamp ahead of the clock: live until timestamp + TTL
		}
		t.PutTS(b, k, g.val(), 100000, ts) // live for a long time
	case 4:
		t.Put(b, k, g.val(), 100000)
	case 5:
		t.PutTS(b, k, g.val(), 0, now+2500-uint64(g.r.Intn(5000)))
	default:
		t.Put(b, k, g.val(), 0)
	}
}

func matchSet(prefix, reg string) (ms [][]byte, bad bool) {
	rgx, err := regexp.Compile(reg)
	if err != nil {
		return nil, true
	}
	for _, k := range kvKeys {
		if strings.HasPrefix(k, prefix) && rgx.Match([]byte(strings.TrimPrefix(k, prefix))) {
			ms = append(ms, []byte(k))
		}
	}
	return ms, false
}

// kvReads runs the read battery of C01/C02 on bucket b inside t.
func (g *gen) kvReads(t *hx.Tx, b string, full bool) {
	for _, k := range kvKeys {
		if full || g.r.Intn(3) == 0 {
			t.Get(b, []byte(k))
		}
	}
	t.GetAll(b)
	bounds := []string{"", "a", "ab", "abz", "b", "bb", "c", "k1", "k10", "k2", "z", "\xff"}
	n := 3
	if full {
		n = 6
	}
	for i := 0; i < n; i++ {
		s, e := pick(g.r, bounds), pick(g.r, bounds)
		t.RangeScan(b, []byte(s), []byte(e))
	}
	prefixes := []string{"", "a", "ab", "b", "ba", "k", "k1", "zz"}
	for i := 0; i < n/2+1; i++ {
		p := pick(g.r, prefixes)
		if g.r.Intn(2) == 0 {
			t.PrefixScan(b, []byte(p), 0, nutsdb.ScanNoLimit)
		} else {
			t.PrefixScan(b, []byte(p), 0, len(kvKeys)+1)
		}
		reg := pick(g.r, regexes)
		ms, bad := matchSet(p, reg)
		lim := nutsdb.ScanNoLimit
		if g.r.Intn(2) == 0 {
			lim = len(kvKeys) + 1
		}
		t.PrefixSearchScan(b, []byte(p), reg, ms, bad, 0, lim)
		if g.paged {
			// C03: offset and limit over 0..n+1 (and ScanNoLimit)
			for q := 0; q < 4; q++ {
				p := pick(g.r, prefixes)
				t.PrefixScan(b, []byte(p), g.r.Intn(len(kvKeys)+2), g.r.Intn(len(kvKeys)+3)-1)
				reg := pick(g.r, regexes)
				ms, bad := matchSet(p, reg)
				t.PrefixSearchScan(b, []byte(p), reg, ms, bad, 0, g.r.Intn(len(kvKeys)+3)-1)
			}
		}
	}
}

// view runs f in a recorded read-only transaction (half of the time through DB.View).
func (g *gen) view(f func(t *hx.Tx)) {
	if g.managedToo && g.r.Intn(2) == 0 {
		g.s.Managed(false, g.r.Intn(4) == 0, nil, f)
		return
	}
	t, err := g.s.Begin(false)
	if err != nil {
		return
	}
	f(t)
	t.Rollback()
}

// update runs f in a recorded write transaction and commits it (half of the time through DB.Update).
func (g *gen) update(f func(t *hx.Tx)) error {
	if g.managedToo && g.r.Intn(2) == 0 {
		return g.s.Managed(true, false, nil, f)
	}
	t, err := g.s.Begin(true)
	if err != nil {
		return err
	}
	f(t)
	return t.Commit(nil)
}

func (g *gen) newSess(dir string, mode nutsdb.EntryIdxMode, rw nutsdb.RWMode, seg int64) {
	opt := nutsdb.DefaultOptions
	opt.Dir = dir
	opt.EntryIdxMode = mode
	opt.RWMode = rw
	opt.SegmentSize = seg
	opt.SyncEnable = g.r.Intn(4) == 0
	opt.StartFileLoadingMode = nutsdb.RWMode(g.r.Intn(2))
	if g.forceOpt != nil {
		g.forceOpt(&opt)
	}
	g.s.Opt = opt
	g.s.U = g.u
}

// histKV: one C01/C02 history.
func (g *gen) histKV() {
	mode := modeOf(g.c.Mode, g.r)
	rw := rwOf(g.c.RW, g.r)
	seg := int64(128 + g.r.Intn(4)*128)
	dir := fmt.Sprintf("%s/db-%d", g.c.Tmp, g.hist)
	os.RemoveAll(dir)
	g.u = &hx.Universe{KvBuckets: []string{"b1", "b2", "bk"}}
	if mode == nutsdb.HintBPTSparseIdxMode || g.oneBucket || g.plain {
		g.u.KvBuckets = []string{"b1"}
	}
	g.newSess(dir, mode, rw, seg)
	g.s.R.Emit(hx.Ev{"op": "reset", "mode": int(mode), "rw": int(rw), "seg": seg, "hist": g.hist,
		"sync": g.s.Opt.SyncEnable, "load": int(g.s.Opt.StartFileLoadingMode)})
	if err := g.s.OpenFirst(); err != nil {
		fmt.Fprintln(os.Stderr, "harness: first open failed:", err)
		os.Exit(2)
	}
	for i := 0; i < g.c.Steps; i++ {
		nops := 1
		if g.r.Intn(3) == 0 {
			nops = 2 + g.r.Intn(4)
		}
		g.update(func(t *hx.Tx) {
			for j := 0; j < nops; j++ {
				g.kvWrite(t)
			}
		})
		g.view(func(t *hx.Tx) {
			g.kvReads(t, pick(g.r, g.u.KvBuckets), g.r.Intn(4) == 0)
		})
		if g.r.Intn(6) == 0 {
			g.s.Obs()
		}
		if g.plain {
			// cycles of: reopen - puts and deletes - Merge - puts only (keys
			// deleted before the Merge come back after it) - reads
			switch i % 14 {
			case 6:
				g.s.MergeObs(dir + "-shadow")
				g.putOnly = true
			case 13:
				g.putOnly = false
				g.s.Close()
				if g.s.Open() != nil {
					return
				}
				g.s.Obs()
			}
		}
		if !g.plain && g.r.Intn(12) == 0 {
			g.s.Close()
			if g.s.Open() != nil {
				return
			}
			g.s.Obs()
		}
	}
	g.s.Obs()
	g.s.Close()
	if g.s.Open() != nil {
		return
	}
	g.s.Obs()
	g.view(func(t *hx.Tx) {
		for _, b := range g.u.KvBuckets {
			g.kvReads(t, b, true)
		}
	})
	g.s.Close()
	os.RemoveAll(dir)
}


// histFill: C09 - entries sized so that a segment is filled to exactly g
// bytes before its end (g = 0: exactly full; g < one header: nothing fits),
// with and without empty values; reads of never-written buckets; reopen.
func (g *gen) histFill() {
	mode := modeOf(g.c.Mode, g.r)
	rw := rwOf(g.c.RW, g.r)
	seg := int64(200 + g.r.Intn(3)*57)
	dir := fmt.Sprintf("%s/db-%d", g.c.Tmp, g.hist)
	os.RemoveAll(dir)
	g.u = &hx.Universe{KvBuckets: []string{"b1", "nob"}}
	g.newSess(dir, mode, rw, seg)
	if g.forceOpt == nil {
		g.s.Opt.StartFileLoadingMode = nutsdb.RWMode(g.hist % 2)
	}
	g.s.R.Emit(hx.Ev{"op": "reset", "mode": int(mode), "rw": int(rw), "seg": seg, "hist": g.hist,
		"sync": g.s.Opt.SyncEnable, "load": int(g.s.Opt.StartFileLoadingMode), "family": "fill"})
	if err := g.s.OpenFirst(); err != nil {
		fmt.Fprintln(os.Stderr, "harness: first open failed:", err)
		os.Exit(2)
	}
	const hdr = 42
	used := int64(0) // bytes used in the active segment, as the driver computes it
	gaps := []int64{0, 0, 1, 2, 41, 42, 43, 44, 45, 46, 47, 60, 70}
	fobs := hx.NewFSObs(dir)
	defer fobs.Uninstall()
	fobs.KeepData = false
	put := func(k string, vlen int64) {
		v := make([]byte, vlen)
		for i := range v {
			v[i] = byte('a' + (i+len(k))%26)
		}
		g.update(func(t *hx.Tx) { t.Put("b1", []byte(k), v, 0) })
		sz := hdr + 2 + int64(len(k)) + vlen
		if used+sz > seg {
			used = 0
		}
		used += sz
	}
	for i := 0; i < g.c.Steps; i++ {
		gap := gaps[g.r.Intn(len(gaps))]
		// fill the active segment up to exactly seg-gap
		for {
			k := pick(g.r, kvKeys)
			base := hdr + 2 + int64(len(k))
			room := seg - gap - used
			if room < base {
				if room == 0 {
					break
				}
				// cannot hit the target in this segment: one small entry rotates
				put(k, 0)
				continue
			}
			vlen := int64(g.r.Intn(30))
			if g.r.Intn(3) == 0 {
				vlen = 0
			}
			if base+vlen > room || room-(base+vlen) < hdr+3 {
				vlen = room - base // end exactly at the target (possibly an empty value)
			}
			put(k, vlen)
			if used == seg-gap {
				break
			}
		}
		// directed boundary cases: an empty-value record that ends exactly on
		// the last byte of the segment, and a reopen while the active
		// segment is exactly full
		if gap >= hdr+3 && gap <= hdr+5 && used == seg-gap && g.r.Intn(2) == 0 {
			k := []string{"a", "ab", "abc"}[gap-hdr-3]
			put(k, 0)
			if g.r.Intn(2) == 0 {
				g.s.Shadow(dir + "-shadow")
				g.s.Close()
				if g.s.Open() != nil {
					return
				}
				g.s.Obs()
			}
		}
		if gap == 0 && used == seg && g.r.Intn(2) == 0 {
			g.s.Shadow(dir + "-shadow")
			g.s.Close()
			if g.s.Open() != nil {
				return
			}
			g.s.Obs()
		}
		// a record torn by a failing write at the tail of the segment, then a
		// commit that does not fit and rotates: the torn record stays at the
		// end of a file that is no longer the last one
		if room := seg - used; room >= hdr+3 && g.r.Intn(2) == 0 {
			t, err := g.s.Begin(true)
			if err == nil {
				t.Put("b1", []byte("c"), []byte{}, 0) // 45 bytes: fits
				partial := 1 + g.r.Intn(hdr+2)
				fobs.Fault = func(m *hx.Mut) (bool, int) { return m.Op == "write", partial }
				fobs.ResetCounters()
				t.Commit(func() int { return fobs.DatWrites })
				fobs.Fault = nil
				put(pick(g.r, kvKeys), room) // needs more than what is left
			}
		}
		// the next entry: empty value, or one that needs more than the gap
		k := pick(g.r, kvKeys)
		if g.r.Intn(2) == 0 {
			put(k, 0)
		} else {
			put(k, int64(g.r.Intn(20)))
		}
		g.view(func(t *hx.Tx) {
			g.kvReads(t, "b1", g.r.Intn(3) == 0)
			if g.r.Intn(2) == 0 {
				g.kvReads(t, "nob", false) // a bucket nobody ever wrote
			}
		})
		if g.r.Intn(3) == 0 {
			g.s.Shadow(dir + "-shadow")
		}
		if g.r.Intn(4) == 0 {
			g.s.Close()
			if g.s.Open() != nil {
				return
			}
			g.s.Obs()
			used = -1 << 40 // unknown after reopen: the next put re-synchronises at a rotation
			// after a reopen the driver no longer knows the fill level; start a new segment
			big := seg - hdr - 2 - 1 - 1
			g.update(func(t *hx.Tx) { t.Put("b1", []byte("c"), make([]byte, big), 0) })
			g.update(func(t *hx.Tx) { t.Put("b1", []byte("c"), []byte("v"), 0) })
			used = hdr + 2 + 1 + 1
		}
	}
	g.s.Obs()
	g.s.Close()
	if g.s.Open() != nil {
		return
	}
	g.s.Obs()
	g.view(func(t *hx.Tx) { g.kvReads(t, "b1", true) })
	g.s.Close()
	os.RemoveAll(dir)
}

// histTTL (C01): the deliberate sleep-across-expiry scenario.  Keys are
// written so that they expire 1, 2 and 3 seconds from now (exact timestamps
// through PutWithTimestamp, clock timestamps through Put); the bucket is
// read a little after the start of every following second, so that each read
// falls entirely into one Unix second - including the second in which
// now == timestamp + TTL, where the pair must already be gone.
func (g *gen) histTTL() {
	mode := modeOf(g.c.Mode, g.r)
	rw := rwOf(g.c.RW, g.r)
	dir := fmt.Sprintf("%s/db-%d", g.c.Tmp, g.hist)
	os.RemoveAll(dir)
	g.u = &hx.Universe{KvBuckets: []string{"b1"}}
	g.newSess(dir, mode, rw, 512)
	g.s.R.Emit(hx.Ev{"op": "reset", "mode": int(mode), "rw": int(rw), "seg": 512, "hist": g.hist, "family": "ttl"})
	if err := g.s.OpenFirst(); err != nil {
		fmt.Fprintln(os.Stderr, "harness: first open failed:", err)
		os.Exit(2)
	}
	untilNextSecond := func(frac time.Duration) {
		now := time.Now()
		next := now.Truncate(time.Second).Add(time.Second + frac)
		time.Sleep(next.Sub(now))
	}
	untilNextSecond(100 * time.Millisecond)
	t0 := uint64(time.Now().Unix())
	keys := []string{"a", "ab", "b", "k1", "k2", "c"}
	g.update(func(t *hx.Tx) {
		t.PutTS("b1", []byte("a"), []byte("exp+1"), 10, t0-10+1)
		t.PutTS("b1", []byte("ab"), []byte("exp+2"), 20, t0-20+2)
		t.PutTS("b1", []byte("b"), []byte("exp+3"), 3, t0)
		t.Put("b1", []byte("k1"), []byte("ttl2"), 2)
		t.Put("b1", []byte("k2"), []byte("forever"), 0)
		t.PutTS("b1", []byte("c"), []byte("gone"), 5, t0-5)
	})
	for sec := 0; sec < 5; sec++ {
		for rep := 0; rep < 2; rep++ {
			g.view(func(t *hx.Tx) {
				for _, k := range keys {
					t.Get("b1", []byte(k))
				}
				t.GetAll("b1")
				t.RangeScan("b1", []byte("a"), []byte("z"))
				t.PrefixScan("b1", []byte(""), 0, nutsdb.ScanNoLimit)
				t.PrefixScan("b1", []byte("a"), 0, 1)
			})
			time.Sleep(300 * time.Millisecond)
		}
		if sec == 2 {
			g.s.Close()
			if g.s.Open() != nil {
				return
			}
		}
		untilNextSecond(100 * time.Millisecond)
	}
	g.s.Obs()
	g.s.Close()
	os.RemoveAll(dir)
}

// histBigVal: key/value histories with segments of 32-64 KiB and values whose
// size and content sit on block boundaries (0, 1, 4095, 4096, 4097, 8192,
// 12288 bytes; all zero bytes, all 0xFF, or a pattern), with quiescent
// backups, shadow reopens, real reopens and merges.  Long values are recorded
// as length + digest.
func (g *gen) histBigVal() {
	mode := modeOf(g.c.Mode, g.r)
	rw := rwOf(g.c.RW, g.r)
	seg := int64(32*1024 + g.r.Intn(3)*16*1024)
	dir := fmt.Sprintf("%s/db-%d", g.c.Tmp, g.hist)
	os.RemoveAll(dir)
	g.u = &hx.Universe{KvBuckets: []string{"b1", "b2"}}
	g.newSess(dir, mode, rw, seg)
	g.s.R.Emit(hx.Ev{"op": "reset", "mode": int(mode), "rw": int(rw), "seg": seg, "hist": g.hist, "family": "bigval",
		"sync": g.s.Opt.SyncEnable, "load": int(g.s.Opt.StartFileLoadingMode)})
	if err := g.s.OpenFirst(); err != nil {
		fmt.Fprintln(os.Stderr, "harness: first open failed:", err)
		os.Exit(2)
	}
	sizes := []int{0, 1, 17, 4095, 4096, 4097, 8191, 8192, 12288}
	mk := func() []byte {
		n := sizes[g.r.Intn(len(sizes))]
		v := make([]byte, n)
		switch g.r.Intn(3) {
		case 0: // zeros
		case 1:
			for i := range v {
				v[i] = 0xFF
			}
		default:
			for i := range v {
				v[i] = byte('a' + i%23)
			}
		}
		return v
	}
	keys := []string{"a", "ab", "b", "k1", "k2"}
	for i := 0; i < g.c.Steps; i++ {
		g.update(func(t *hx.Tx) {
			n := 1 + g.r.Intn(3)
			for j := 0; j < n; j++ {
				b, k := pick(g.r, g.u.KvBuckets), []byte(pick(g.r, keys))
				if g.r.Intn(6) == 0 {
					t.Delete(b, k)
				} else {
					t.Put(b, k, mk(), 0)
				}
			}
		})
		g.view(func(t *hx.Tx) {
			b := pick(g.r, g.u.KvBuckets)
			for _, k := range keys {
				t.Get(b, []byte(k))
			}
			t.GetAll(b)
		})
		switch g.r.Intn(6) {
		case 0:
			g.s.Backup(dir + "-backup")
		case 1:
			g.s.Shadow(dir + "-shadow")
		case 2:
			g.s.MergeObs(dir + "-shadow")
		case 3:
			if !g.reopenCompare([]string{"kv"}) {
				return
			}
		}
	}
	g.s.Obs()
	g.s.Backup(dir + "-backup")
	g.s.Close()
	os.RemoveAll(dir)
}

// ---------------------------------------------------------------- data structures

func (g *gen) idx(n int) int { return g.r.Intn(2*n+4) - n - 2 } // -n-2 .. n+1

// unrecorded peeks at the real state, used only to pick interesting arguments
func (g *gen) lsSize(t *hx.Tx, b, k string) (n int) {
	defer func() { recover() }()
	n, _ = t.T.LSize(b, []byte(k))
	return n
}

func (g *gen) zCard(t *hx.Tx, b string) (n int) {
	defer func() { recover() }()
	n, _ = t.T.ZCard(b)
	return n
}

var lsVals = []string{"a", "b", "", "x|y", "|", "a"}
var stVals = []string{"a", "b", "", "m|n", "c"}

// lsMut performs one random mutating list call.
func (g *gen) lsMut(t *hx.Tx) {
	b, k := g.bpick("lsb", g.u.LsBuckets), g.fpick("lsk", g.u.LsKeys)
	n := g.lsSize(t, b, k)
	switch g.r.Intn(12) {
	case 0, 1, 2:
		vs := [][]byte{[]byte(pick(g.r, lsVals))}
		for g.r.Intn(3) == 0 {
			vs = append(vs, []byte(pick(g.r, lsVals)))
		}
		t.RPush(b, k, vs...)
	case 3, 4:
		vs := [][]byte{[]byte(pick(g.r, lsVals))}
		for g.r.Intn(3) == 0 {
			vs = append(vs, []byte(pick(g.r, lsVals)))
		}
		t.LPush(b, k, vs...)
	case 5:
		t.LPop(b, k)
	case 6:
		t.RPop(b, k)
	case 7, 8:
		t.LRem(b, k, g.idx(n), []byte(pick(g.r, lsVals)))
	case 9:
		t.LSet(b, k, g.idx(n), []byte(pick(g.r, lsVals)))
	default:
		t.LTrim(b, k, g.idx(n), g.idx(n))
	}
}

func (g *gen) lsReads(t *hx.Tx, full bool) {
	for _, b := range g.u.LsBuckets {
		for _, k := range g.u.LsKeys {
			if !full && g.r.Intn(2) == 0 {
				continue
			}
			n, _ := t.LSize(b, k)
			t.LPeek(b, k)
			t.RPeek(b, k)
			t.LRange(b, k, 0, -1)
			for i := 0; i < 2; i++ {
				t.LRange(b, k, g.idx(n), g.idx(n))
			}
		}
	}
}

func (g *gen) stMut(t *hx.Tx) {
	b, k := g.bpick("stb", g.u.StBuckets), g.fpick("stk", g.u.StKeys)
	items := func() [][]byte {
		vs := [][]byte{[]byte(g.fpick("stv", stVals))}
		for g.r.Intn(3) == 0 {
			vs = append(vs, []byte(g.fpick("stv", stVals)))
		}
		return vs
	}
	c := g.r.Intn(10)
	if g.noSMove && c >= 7 {
		c = g.r.Intn(7)
	}
	switch c {
	case 0, 1, 2, 3:
		t.SAdd(b, k, items()...)
	case 4, 5:
		t.SRem(b, k, items()...)
	case 6:
		if g.noSPop {
			// SPop's choice is legitimately nondeterministic (map order):
			// product runs, which compare configurations event by event, avoid it
			t.SRem(b, k, items()...)
		} else {
			t.SPop(b, k)
		}
	case 7, 8:
		t.SMove(b, k, b, pick(g.r, g.u.StKeys), []byte(pick(g.r, stVals)), false)
	default:
		t.SMove(b, k, pick(g.r, g.u.StBuckets), pick(g.r, g.u.StKeys), []byte(pick(g.r, stVals)), true)
	}
}

func (g *gen) stReads(t *hx.Tx, full bool) {
	for _, b := range g.u.StBuckets {
		for _, k := range g.u.StKeys {
			if !full && g.r.Intn(2) == 0 {
				continue
			}
			t.SMembers(b, k)
			t.SCard(b, k)
			t.SHasKey(b, k)
			t.SIsMember(b, k, []byte(pick(g.r, stVals)))
			t.SAreMembers(b, k, []byte(pick(g.r, stVals)), []byte(pick(g.r, stVals)))
			k2 := pick(g.r, g.u.StKeys)
			t.SDiff(b, k, b, k2, false)
			t.SUnion(b, k, b, k2, false)
			b2 := pick(g.r, g.u.StBuckets)
			t.SDiff(b, k, b2, k2, true)
			t.SUnion(b, k, b2, k2, true)
		}
	}
}

func (g *gen) zMut(t *hx.Tx) {
	b := g.bpick("zsb", g.u.ZsBuckets)
	n := g.zCard(t, b)
	switch g.r.Intn(10) {
	case 0, 1, 2, 3, 4:
		t.ZAdd(b, []byte(g.fpick("zsk", zKeys)), float64(g.r.Intn(4)-1), []byte(pick(g.r, vals)))
	case 5, 6:
		t.ZRem(b, g.fpick("zsk", zKeys))
	case 7:
		t.ZRemRangeByRank(b, g.idx(n), g.idx(n))
	case 8:
		t.ZPopMax(b)
	default:
		t.ZPopMin(b)
	}
}

func (g *gen) zReads(t *hx.Tx, full bool) {
	for _, b := range g.u.ZsBuckets {
		if !full && g.r.Intn(2) == 0 {
			continue
		}
		n, _ := t.ZCard(b)
		t.ZMembers(b)
		t.ZPeekMin(b)
		t.ZPeekMax(b)
		for i := 0; i < 3; i++ {
			t.ZRangeByScore(b, g.r.Intn(6)-3, g.r.Intn(6)-3, g.r.Intn(3) == 0, g.r.Intn(3) == 0, g.r.Intn(3))
		}
		t.ZCount(b, g.r.Intn(6)-3, g.r.Intn(6)-3, g.r.Intn(3) == 0, g.r.Intn(3) == 0, g.r.Intn(3))
		t.ZRangeByRank(b, 1, -1)
		for i := 0; i < 2; i++ {
			t.ZRangeByRank(b, g.idx(n), g.idx(n))
		}
		for _, k := range zKeys {
			if full || g.r.Intn(2) == 0 {
				t.ZRank(b, []byte(k))
				t.ZRevRank(b, []byte(k))
				t.ZScore(b, []byte(k))
				t.ZGetByKey(b, []byte(k))
			}
		}
	}
}

// dsUniverse is the universe of the data-structure families.
func dsUniverse(kv bool) *hx.Universe {
	u := &hx.Universe{LsBuckets: []string{"l1", "l2"}, StBuckets: []string{"s1", "s2"}, ZsBuckets: []string{"z1", "z2"},
		LsKeys: lsKeys, StKeys: stKeys}
	if kv {
		u.KvBuckets = []string{"b1", "b2"}
	}
	return u
}

func (g *gen) start(mode nutsdb.EntryIdxMode, rw nutsdb.RWMode, seg int64) string {
	dir := fmt.Sprintf("%s/db-%d", g.c.Tmp, g.hist)
	os.RemoveAll(dir)
	g.newSess(dir, mode, rw, seg)
	g.s.R.Emit(hx.Ev{"op": "reset", "mode": int(mode), "rw": int(rw), "seg": seg, "hist": g.hist,
		"sync": g.s.Opt.SyncEnable, "load": int(g.s.Opt.StartFileLoadingMode), "family": g.c.Family})
	if err := g.s.OpenFirst(); err != nil {
		fmt.Fprintln(os.Stderr, "harness: first open failed:", err)
		os.Exit(2)
	}
	return dir
}

// histDS: one history over one structure kind ("list", "set", "zset") or all
// ("mixed"); one mutating call per transaction (the sequence semantics of
// C05-C07), every read API in a following read-only transaction.
func (g *gen) histDS(kind string) {
	g.u = dsUniverse(kind == "mixed")
	dir := g.start(nutsdb.HintKeyValAndRAMIdxMode, rwOf(g.c.RW, g.r), int64(256+g.r.Intn(4)*256))
	for i := 0; i < g.c.Steps; i++ {
		k := kind
		if kind == "mixed" {
			k = pick(g.r, []string{"list", "set", "zset", "kv"})
		}
		nops := 1
		if kind == "mixed" && g.r.Intn(3) == 0 {
			nops = 1 + g.r.Intn(3)
		}
		g.update(func(t *hx.Tx) {
			for j := 0; j < nops; j++ {
				switch k {
				case "list":
					g.lsMut(t)
				case "set":
					g.stMut(t)
				case "zset":
					g.zMut(t)
				case "kv":
					g.kvWrite(t)
				}
				if kind == "mixed" {
					k = pick(g.r, []string{"list", "set", "zset", "kv"})
				}
			}
		})
		g.view(func(t *hx.Tx) {
			full := g.r.Intn(5) == 0
			if kind == "list" || kind == "mixed" {
				g.lsReads(t, full)
			}
			if kind == "set" || kind == "mixed" {
				g.stReads(t, full)
			}
			if kind == "zset" || kind == "mixed" {
				g.zReads(t, full)
			}
			if kind == "mixed" {
				g.kvReads(t, pick(g.r, g.u.KvBuckets), false)
			}
		})
		if g.r.Intn(5) == 0 {
			g.s.Obs()
		}
		if g.r.Intn(10) == 0 {
			g.s.Shadow(dir + "-shadow")
		}
		if g.r.Intn(15) == 0 {
			g.s.Close()
			if g.s.Open() != nil {
				return
			}
			g.s.Obs()
		}
	}
	g.s.Obs()
	g.s.Close()
	if g.s.Open() != nil {
		return
	}
	g.s.Obs()
	g.s.Close()
	os.RemoveAll(dir)
}

// ---------------------------------------------------------------- mixed histories

type mixOpts struct {
	kinds     []string // structure kinds used
	pMulti    int      // percent of transactions with several operations
	pInTxRead int      // percent chance of a read after each operation inside a write tx
	pNoCommit int      // percent of transactions that end without a successful commit
	pMerge    int      // percent chance of a Merge after a transaction
	mergeFail bool     // Merge (more often than not) right after a commit that failed
	pROMut    int      // percent chance that a read-only tx calls mutating APIs
	faults    bool     // inject I/O faults into commits
	buckets   []string // adversarial bucket names used for every structure (C04)
	obsAlways bool     // full observation of every bucket after every transaction
}

func (g *gen) mutOne(t *hx.Tx, kinds []string) {
	switch pick(g.r, kinds) {
	case "list":
		g.lsMut(t)
	case "set":
		g.stMut(t)
	case "zset":
		g.zMut(t)
	default:
		g.kvWrite(t)
	}
}

func (g *gen) readSome(t *hx.Tx, kinds []string, full bool) {
	for _, k := range kinds {
		if !full && g.r.Intn(2) == 0 {
			continue
		}
		switch k {
		case "list":
			g.lsReads(t, full)
		case "set":
			g.stReads(t, full)
		case "zset":
			g.zReads(t, full)
		default:
			g.kvReads(t, pick(g.r, g.u.KvBuckets), full)
		}
	}
}

// battery runs a read-only transaction whose calls are a function of seed only.
func (g *gen) battery(seed int64, kinds []string) {
	saved := g.r
	g.r = rand.New(rand.NewSource(seed))
	g.view(func(t *hx.Tx) {
		for i := 0; i < 2; i++ {
			g.readSome(t, kinds, true)
		}
		// every structure of every bucket, also the ones that only ever saw
		// operations that were no-ops
		for _, b := range g.u.StBuckets {
			for _, k := range g.u.StKeys {
				t.SCard(b, k)
				t.SHasKey(b, k)
				t.SMembers(b, k)
			}
		}
		for _, b := range g.u.LsBuckets {
			for _, k := range g.u.LsKeys {
				t.LSize(b, k)
				t.LRange(b, k, 0, -1)
			}
		}
		for _, b := range g.u.ZsBuckets {
			t.ZCard(b)
			t.ZMembers(b)
		}
		for _, b := range g.u.KvBuckets {
			t.GetAll(b)
		}
	})
	g.r = saved
}

// reopenCompare (C08): the same read battery right before Close and right
// after Open.  The events after Open carry the digest of the corresponding
// event before Close; the specification requires the two to be equal
// (result for result, error for error) besides both being admitted.
func (g *gen) reopenCompare(kinds []string) bool {
	seed := g.r.Int63()
	main := g.s.R
	capture := func() []hx.Ev {
		g.s.R = &hx.Recorder{Hold: true, Cnt: map[string]int{}, Base: main.Base}
		g.battery(seed, kinds)
		evs := g.s.R.Evs
		g.s.R = main
		return evs
	}
	before := capture()
	for _, e := range before {
		main.Emit(e)
	}
	g.s.Close()
	if g.s.Open() != nil {
		return false
	}
	after := capture()
	for i, e := range after {
		d := "missing"
		if i < len(before) {
			d = digest(before[i])
		}
		e["alt"] = []string{d, digest(e)}
		e["cmp"] = true
		if i < len(before) {
			if be, ok := before[i]["err"].(bool); ok {
				e["berr"] = be
			}
			if bo, ok := before[i]["ok"].(bool); ok {
				e["bok"] = bo
			}
		}
		main.Emit(e)
	}
	return true
}

// afterFinish calls APIs on a finished transaction: each must return an error.
func (g *gen) afterFinish(t *hx.Tx) {
	t.Put("b1", []byte("a"), []byte("v"), 0)
	t.Get("b1", []byte("a"))
	if len(g.u.LsBuckets) > 0 {
		t.RPush("l1", "l1", []byte("a"))
		t.LPop("l1", "l1")
		t.LRange("l1", "l1", 0, -1)
		t.SAdd("s1", "s1", []byte("a"))
		t.SMembers("s1", "s1")
		t.ZAdd("z1", []byte("a"), 1, []byte("v"))
		t.ZCard("z1")
	}
	t.GetAll("b1")
	t.Delete("b1", []byte("a"))
	if g.r.Intn(2) == 0 {
		t.Commit(nil)
	} else {
		t.Rollback()
	}
}

// histMixed: one history over several structures with transactions that
// commit, roll back, fail, or are read-only.
func (g *gen) histMixed(o mixOpts) {
	hasDS := false
	for _, k := range o.kinds {
		if k != "kv" {
			hasDS = true
		}
	}
	mode := nutsdb.HintKeyValAndRAMIdxMode
	if !hasDS {
		mode = modeOf(g.c.Mode, g.r)
	}
	g.u = dsUniverse(true)
	if !hasDS {
		g.u = &hx.Universe{KvBuckets: []string{"b1", "b2"}}
	}
	if o.buckets != nil {
		g.u = &hx.Universe{KvBuckets: o.buckets}
		if hasDS {
			g.u = &hx.Universe{KvBuckets: o.buckets, LsBuckets: o.buckets, StBuckets: o.buckets, ZsBuckets: o.buckets,
				LsKeys: []string{"a", "l1"}, StKeys: []string{"a", "ab"}}
		}
	}
	seg := int64(192 + g.r.Intn(4)*128)
	dir := fmt.Sprintf("%s/db-%d", g.c.Tmp, g.hist)
	os.RemoveAll(dir)
	obs := hx.NewFSObs(dir)
	defer obs.Uninstall()
	obs.KeepData = false
	g.start(mode, rwOf(g.c.RW, g.r), seg)
	if g.c.Proto {
		g.s.Proto = g.protoRec(g.s.Opt.SyncEnable)
		g.s.ProtoEpoch(true)
		obs.OnMut = g.s.ProtoMut
		defer func() { g.s.Proto = nil }()
	}
	big := make([]byte, seg) // an entry larger than the segment
	for i := range big {
		big[i] = 'x'
	}
	failedNow := false
	for i := 0; i < g.c.Steps; i++ {
		nops := 1
		if g.r.Intn(100) < o.pMulti {
			nops = 2 + g.r.Intn(4)
			if g.r.Intn(12) == 0 {
				nops = 13 + g.r.Intn(10) // a bulk transaction over several buckets
			}
		}
		ro := g.r.Intn(6) == 0
		t, err := g.s.Begin(!ro)
		if err != nil {
			break
		}
		if ro {
			g.readSome(t, o.kinds, false)
			if g.r.Intn(100) < o.pROMut {
				for j := 0; j < 3; j++ {
					g.mutOne(t, o.kinds)
				}
				g.readSome(t, o.kinds, false)
			}
			if g.r.Intn(2) == 0 {
				t.Commit(nil)
			} else {
				t.Rollback()
			}
		} else {
			fate := "commit"
			if g.r.Intn(100) < o.pNoCommit {
				fate = pick(g.r, []string{"rollback", "fnerr", "oversize", "fault", "sweep", "syncfault"})
				if !o.faults && (fate == "fault" || fate == "syncfault" || fate == "sweep") {
					fate = "rollback"
				}
			}
			bigAt := -1
			if fate == "oversize" {
				bigAt = g.r.Intn(nops)
			}
			kinds := o.kinds
			focused := nops > 1 && g.r.Intn(3) == 0
			if focused {
				// a focused transaction: several operations on one target
				kinds = []string{pick(g.r, o.kinds)}
				nops += 1 + g.r.Intn(3)
			}
			collide := o.buckets != nil && g.r.Intn(100) < 30
			// a twin transaction: every call is made twice in a row, the second
			// time on the next bucket (equal keys, values and flags side by side
			// in the pending writes - only the bucket tells the entries apart)
			twin := nops > 1 && !focused && g.r.Intn(5) == 0
			xstruct := o.buckets != nil && len(o.kinds) > 1 && g.r.Intn(100) < 25
			// the operations of the transaction, reproducible from opSeed (the
			// fault sweep below runs the same transaction several times)
			opSeed := g.r.Int63()
			body := func(t *hx.Tx) {
				saved := g.r
				g.r = rand.New(rand.NewSource(opSeed))
				if focused {
					g.focus = map[string]string{}
				}
				if collide {
					// C04: writes whose bucket+key concatenations coincide, in one transaction
					c := pick(g.r, []string{"ab", "aba", "abab", "ba", "bab", "abc", "bk1"})
					for i := 0; i < len(c); i++ {
						b, k := c[:i], c[i:]
						okB := false
						for _, x := range o.buckets {
							okB = okB || x == b
						}
						okK := false
						for _, x := range kvKeys {
							okK = okK || x == k
						}
						if okB && okK && g.r.Intn(4) > 0 {
							t.Put(b, []byte(k), []byte("v-"+b+"/"+k), 0)
						}
					}
				}
				if xstruct {
					// operations on different structures that share bucket name and
					// key, directly behind each other (equal flags in the pending writes)
					b := pick(g.r, o.buckets)
					k := pick(g.r, []string{"a", "ab"})
					v := g.val()
					has := func(kind string) bool {
						for _, x := range o.kinds {
							if x == kind {
								return true
							}
						}
						return false
					}
					steps := []func(){
						func() { t.Put(b, []byte(k), v, 0) },
						func() { t.Delete(b, []byte(k)) },
					}
					if has("set") {
						steps = append(steps, func() { t.SAdd(b, k, v) }, func() { t.SRem(b, k, v) }, func() {
							if !g.noSPop {
								t.SPop(b, k)
							}
						})
					}
					if has("list") && k == "a" { // "ab" is not a list key of this universe (observations would not show it)
						steps = append(steps, func() { t.RPush(b, k, v) }, func() { t.LPop(b, k) })
					}
					if has("zset") {
						steps = append(steps, func() { t.ZAdd(b, []byte(k), 1, v) }, func() { t.ZRem(b, k) })
					}
					for i, n := 0, 2+g.r.Intn(3); i < n; i++ {
						steps[g.r.Intn(len(steps))]()
					}
				}
				for j := 0; j < nops; j++ {
					if j == bigAt {
						t.Put(pick(g.r, g.u.KvBuckets), []byte(pick(g.r, kvKeys)), big, 0)
					} else if twin {
						s1 := g.r.Int63()
						outer := g.r
						g.r = rand.New(rand.NewSource(s1))
						g.mutOne(t, kinds)
						g.r, g.flip = rand.New(rand.NewSource(s1)), true
						g.mutOne(t, kinds)
						g.r, g.flip = outer, false
					} else {
						g.mutOne(t, kinds)
					}
					if g.r.Intn(100) < o.pInTxRead {
						g.readSome(t, o.kinds, false)
					}
				}
				g.focus = nil
				g.r = saved
			}
			body(t)
			faultAt := func(k int, partial int, syncOnly bool) {
				cnt := 0
				obs.Fault = func(m *hx.Mut) (bool, int) {
					if syncOnly != (m.Op == "sync") {
						return false, 0
					}
					cnt++
					return cnt-1 == k, partial
				}
			}
			switch fate {
			case "rollback":
				t.Rollback()
			case "fnerr":
				// the same operations once more, through DB.Update with a function that returns an error
				t.Rollback()
				g.s.Managed(true, true, nil, body)
			case "fault", "syncfault":
				// fail the k-th file mutation of this commit (a write, possibly
				// after a partial write; or a sync after a completed write)
				partial := -1
				if g.r.Intn(2) == 0 {
					partial = 1 + g.r.Intn(60)
				}
				faultAt(g.r.Intn(2*nops+2), partial, fate == "syncfault")
				obs.ResetCounters()
				if t.Commit(func() int { return obs.DatWrites }) != nil {
					failedNow = true
				}
				obs.Fault = nil
			case "sweep":
				// C12, exhaustive over the fault position: the same transaction is
				// committed with the j-th file mutation failing, for j = 0, 1, ...
				// until a commit goes through; after every failed attempt the
				// reads below must see nothing of it
				for j := 0; j < 64; j++ {
					partial := -1
					if j%2 == 1 {
						partial = 1 + g.r.Intn(60)
					}
					faultAt(j, partial, false)
					before := obs.Injected
					obs.ResetCounters()
					err := t.Commit(func() int { return obs.DatWrites })
					obs.Fault = nil
					if err == nil || obs.Injected == before {
						break
					}
					g.view(func(t *hx.Tx) { g.readSome(t, o.kinds, false) })
					if j%3 == 0 {
						g.s.Obs()
					}
					if j%5 == 4 {
						g.s.Shadow(dir + "-shadow")
					}
					if g.s.Panics > 0 {
						return
					}
					var berr error
					t, berr = g.s.Begin(true)
					if berr != nil {
						return
					}
					body(t)
				}
			default:
				obs.ResetCounters()
				t.Commit(func() int { return obs.DatWrites })
			}
		}
		if g.s.Panics > 0 {
			return // the history is not continued after a panic
		}
		if g.r.Intn(8) == 0 {
			g.afterFinish(t)
		}
		g.view(func(t *hx.Tx) { g.readSome(t, o.kinds, g.r.Intn(6) == 0) })
		if o.obsAlways || g.r.Intn(3) == 0 {
			g.s.Obs()
		}
		if g.r.Intn(6) == 0 {
			g.s.Shadow(dir + "-shadow")
		}
		mergeNow := g.r.Intn(100) < o.pMerge
		if o.mergeFail && failedNow && g.r.Intn(5) < 3 {
			mergeNow = true
		}
		failedNow = false
		if mergeNow {
			g.s.Obs()
			nm := 1 + g.r.Intn(2) // possibly twice in a row
			for m := 0; m < nm; m++ {
				if o.faults && g.r.Intn(3) == 0 {
					// fail the k-th file mutation inside Merge
					k, cnt := g.r.Intn(12), 0
					partial := -1
					if g.r.Intn(2) == 0 {
						partial = 1 + g.r.Intn(60)
					}
					obs.Fault = func(m *hx.Mut) (bool, int) {
						cnt++
						return cnt-1 == k, partial
					}
				}
				g.s.MergeObs(dir + "-shadow")
				obs.Fault = nil
				if g.s.Panics > 0 {
					return
				}
			}
		}
		if g.r.Intn(12) == 0 {
			if !g.reopenCompare(o.kinds) {
				return
			}
			g.s.Obs()
		}
	}
	g.s.Obs()
	g.s.Shadow(dir + "-shadow")
	if !g.reopenCompare(o.kinds) {
		return
	}
	g.s.Obs()
	g.s.Close()
	if err := obs.Verify(); err != nil {
		fmt.Fprintln(os.Stderr, "harness: file observer out of sync with the directory:", err)
		os.Exit(2)
	}
	os.RemoveAll(dir)
}

func main() {
	var c cfg
	flag.StringVar(&c.Family, "family", "kv", "driver family")
	flag.Int64Var(&c.Seed, "seed", 1, "seed")
	flag.IntVar(&c.Hist, "hist", 4, "histories")
	flag.IntVar(&c.Steps, "steps", 40, "transactions per history")
	flag.StringVar(&c.Out, "out", "trace.ndjson", "trace file")
	flag.StringVar(&c.Tmp, "tmp", os.TempDir(), "scratch directory")
	flag.StringVar(&c.Mode, "mode", "any", "index mode")
	flag.StringVar(&c.RW, "rw", "any", "rw mode")
	flag.StringVar(&c.Summary, "summary", "", "write a JSON summary here")
	flag.BoolVar(&c.Proto, "proto", false, "also write the protocol-grain event streams <out>.proto0 / <out>.proto1 (SyncEnable off / on)")
	flag.BoolVar(&c.AllTorn, "alltorn", false, "crash families: tear writes at every record-field boundary")
	flag.BoolVar(&c.Witness, "witness", false, "run the known-finding witnesses of the family instead of random histories")
	openImg := flag.String("openimage", "", "child mode: open this image directory and print what it serves")
	imode := flag.Int("imode", 0, "")
	irw := flag.Int("irw", 0, "")
	iload := flag.Int("iload", 0, "")
	iseg := flag.Int64("iseg", 256, "")
	isync := flag.Bool("isync", false, "")
	ids := flag.Bool("ids", false, "")
	flag.Parse()
	if *openImg != "" {
		openImageMain(*openImg, *imode, *irw, *iload, *iseg, *isync, *ids)
		return
	}

	rec, err := hx.NewRecorder(c.Out)
	if err != nil {
		fmt.Fprintln(os.Stderr, "harness:", err)
		os.Exit(2)
	}
	g := &gen{c: c, r: rand.New(rand.NewSource(c.Seed)), s: &hx.Sess{R: rec}, managedToo: true}
	g.seed0 = c.Seed
	writeSummary := func() {
		if c.Summary != "" {
			b, _ := json.Marshal(map[string]interface{}{"events": rec.N, "by_op": rec.Cnt, "histories": c.Hist, "panics": g.s.Panics,
				"nontrivial": map[string]int{"crash_images": g.images, "configs": g.configs, "concurrent_txs": g.ntx, "lock_events": len(g.lockEvs), "product_distinct_calls": g.productDistinct}})
			os.WriteFile(c.Summary, b, 0644)
		}
	}
	g.s.OnHang = writeSummary
	if hs := os.Getenv("VERIF_HANG_SECONDS"); hs != "" {
		var n int
		fmt.Sscan(hs, &n)
		if n > 0 {
			hx.HangAfter = time.Duration(n) * time.Second
		}
	}
	for h := 0; h < c.Hist; h++ {
		g.hist = h
		switch c.Family {
		case "kv":
			g.histKV()
		case "fill":
			g.histFill()
		case "ttl":
			g.histTTL()
		case "bigval":
			g.histBigVal()
		case "bptree": // component check of the in-memory B+ tree (several levels)
			g.histBPTree()
		case "conc": // C14: several databases, mixed readers and writers
			g.histConc(concOpts{ndb: 1 + g.r.Intn(3), ngor: 4 + g.r.Intn(13), ntx: c.Steps})
		case "concmerge": // C17: a goroutine merges while the others read and write
			g.histConc(concOpts{ndb: 1, ngor: 3 + g.r.Intn(6), ntx: c.Steps, merger: true})
		case "concmergegate": // C17: forced schedule, an update commits between Merge's scan and rewrite
			g.histConc(concOpts{ndb: 1, ngor: 2, ntx: c.Steps, merger: true, gated: true})
		case "concbackup": // C18: backups while the others write
			g.histConc(concOpts{ndb: 1 + g.r.Intn(2), ngor: 3 + g.r.Intn(6), ntx: c.Steps, backup: true})
		case "page", "pagemerge": // C03: paged scans over a larger key universe (several B+ tree leaves); pagemerge: with merges, no TTL
			g.plain = c.Family == "pagemerge"
			if !g.paged {
				g.paged = true
				for i := 0; i < 14; i++ {
					kvKeys = append(kvKeys, fmt.Sprintf("k1%c", 'a'+i), fmt.Sprintf("ab%c", 'e'+i))
				}
			}
			g.histKV()
		case "product", "productkv", "productfill", "productsparse":
			g.histProduct(c.Family)
		case "crash": // C10: every structure, process crash at every mutation point
			g.histCrash(crashOpts{kinds: []string{"kv", "list", "set", "zset"}, sameMs: true, allTorn: g.c.AllTorn})
		case "crashkv":
			g.histCrash(crashOpts{kinds: []string{"kv"}, sameMs: true, allTorn: g.c.AllTorn})
		case "power": // C11
			g.histCrash(crashOpts{kinds: []string{"kv", "list", "set", "zset"}, power: true, allTorn: g.c.AllTorn})
		case "powerkv":
			g.histCrash(crashOpts{kinds: []string{"kv"}, power: true, allTorn: g.c.AllTorn})
		case "powermergekv": // C11: power loss in workloads that also merge
			g.histCrash(crashOpts{kinds: []string{"kv"}, power: true, wmerge: true, allTorn: g.c.AllTorn})
		case "crashcont": // C10/C09: the history continues on the crashed directory
			g.histCrashCont([]string{"kv", "list", "set", "zset"})
		case "crashcontkv":
			g.histCrashCont([]string{"kv"})
		case "crashmerge": // C16
			g.histCrash(crashOpts{kinds: []string{"kv", "list", "set", "zset"}, merges: true, allTorn: g.c.AllTorn})
		case "crashmergemany": // C16: more than ten data files when Merge starts
			g.histCrash(crashOpts{kinds: []string{"kv"}, merges: true, many: true, allTorn: g.c.AllTorn})
		case "crashmergekv":
			g.histCrash(crashOpts{kinds: []string{"kv"}, merges: true, allTorn: g.c.AllTorn})
		case "crashmergeds":
			g.noSMove = true
			g.histCrash(crashOpts{kinds: []string{"kv", "set", "zset"}, merges: true, allTorn: g.c.AllTorn})
		case "list", "set", "zset":
			g.histDS(c.Family)
		case "mixed": // C08: every structure, multi-operation transactions, reopen
			g.histMixed(mixOpts{kinds: []string{"kv", "list", "set", "zset"}, pMulti: 50, pNoCommit: 10, pROMut: 0})
		case "listmulti", "setmulti", "zsetmulti": // C05-C07 through multi-operation (often focused) transactions
			g.histMixed(mixOpts{kinds: []string{strings.TrimSuffix(c.Family, "multi")}, pMulti: 75, pNoCommit: 8})
		case "iso": // C04: adversarial bucket names, every structure
			g.histMixed(mixOpts{kinds: []string{"kv", "list", "set", "zset"}, pMulti: 50, pNoCommit: 10, buckets: isoBuckets, obsAlways: true})
		case "isomerge": // C04 across Merge and reopen (no lists: a Merge with list records is a recorded finding)
			g.noSMove = true
			g.histMixed(mixOpts{kinds: []string{"kv", "set", "zset"}, pMulti: 50, pNoCommit: 10, pMerge: 12, buckets: isoBuckets, obsAlways: true})
		case "isointx": // C13 over structures that share bucket names and keys
			g.histMixed(mixOpts{kinds: []string{"kv", "list", "set", "zset"}, pMulti: 90, pInTxRead: 40, buckets: isoBuckets})
		case "isokv":
			g.histMixed(mixOpts{kinds: []string{"kv"}, pMulti: 50, pNoCommit: 10, buckets: isoBuckets, obsAlways: true})
		case "mixedkv": // C08 in the other index modes
			g.histMixed(mixOpts{kinds: []string{"kv"}, pMulti: 50, pNoCommit: 10})
		case "intx": // C13: reads and pops of structures the transaction already modified
			g.histMixed(mixOpts{kinds: []string{"kv", "list", "set", "zset"}, pMulti: 90, pInTxRead: 60})
		case "fail": // C12: transactions that end without commit
			g.histMixed(mixOpts{kinds: []string{"kv", "list", "set", "zset"}, pMulti: 60, pNoCommit: 45, pROMut: 60, faults: true})
		case "failmerge": // C12 across Merge: what a failed transaction left in the files must stay without effect when Merge rewrites them
			g.noSMove = true
			g.histMixed(mixOpts{kinds: []string{"kv", "set", "zset"}, pMulti: 70, pNoCommit: 40, pROMut: 30, pMerge: 10, faults: true, mergeFail: true})
		case "failkv":
			g.histMixed(mixOpts{kinds: []string{"kv"}, pMulti: 60, pNoCommit: 45, pROMut: 60, faults: true})
		case "merge": // C15
			g.histMixed(mixOpts{kinds: []string{"kv", "list", "set", "zset"}, pMulti: 40, pNoCommit: 10, pMerge: 12})
		case "mergeds": // C15 without lists and without SMove
			g.noSMove = true
			g.histMixed(mixOpts{kinds: []string{"kv", "set", "zset"}, pMulti: 40, pNoCommit: 10, pMerge: 12, faults: true})
		case "mergeproto": // C15/C16 at protocol grain: the trace is validated by MergeTrace.tla
			g.histMergeProto()
		case "mergekv":
			g.histMixed(mixOpts{kinds: []string{"kv"}, pMulti: 40, pNoCommit: 15, pMerge: 15, faults: true})
		default:
			fmt.Fprintln(os.Stderr, "harness: unknown family", c.Family)
			os.Exit(2)
		}
	}
	if err := rec.Close(); err != nil {
		fmt.Fprintln(os.Stderr, "harness:", err)
		os.Exit(2)
	}
	for _, pr := range g.protos {
		if pr != nil {
			pr.Close()
		}
	}
	if len(g.lockEvs) > 0 {
		lr, err := hx.NewRecorder(c.Out + ".lock")
		if err != nil {
			fmt.Fprintln(os.Stderr, "harness:", err)
			os.Exit(2)
		}
		for _, e := range g.lockEvs {
			lr.Emit(e)
		}
		lr.Close()
	}
	writeSummary()
}
