package main

import (
	"bytes"
	"fmt"
	"math/rand"
	"os"
	"runtime"
	"sort"
	"strconv"
	"sync"
	"sync/atomic"
	"time"

	"github.com/xujiajun/nutsdb"
	"verifharness/internal/hx"
)

// conc families (C14, C17, C18): goroutines run View / Update / Backup (and
// Merge) on one or several databases of this process.  The lock hook (called
// while db.mu is held) tells every transaction how many writers acquired the
// lock before it, which fixes its place in the serial order; each
// database's transactions are then written to the trace in that order and
// validated by NutsTrace as a sequential history.  The raw lock / shared
// access events go to a second stream validated by LockTrace.

type concOpts struct {
	ndb, ngor, ntx int
	merger         bool // a goroutine calling Merge in a loop (C17)
	backup         bool // a goroutine calling Backup (C18)
	sparse         bool
	gated          bool // deterministic schedule: a writer commits while Merge waits at the rewrite gate
}

type concTx struct {
	db     int
	w      bool
	wseen  int64 // writer acquisitions on this database up to and including this transaction's own
	tick   int64 // begin tick: orders the readers that saw the same number of writers (this extends real-time precedence)
	arr    int64 // arrival order (last tie-break)
	events []hx.Ev
}

type concState struct {
	mu       sync.Mutex
	seq      int64
	lockEvs  []hx.Ev
	names    sync.Map // goroutine id -> name
	dbName   map[*nutsdb.DB]string
	wacq     []int64
	rnd      *rand.Rand
	rmu      sync.Mutex
	bseen    sync.Map // backup goroutine name -> wacq at the copy
	tick     int64
	yieldPct int
}

func goid() int64 {
	var buf [64]byte
	n := runtime.Stack(buf[:], false)
	f := bytes.Fields(buf[:n])
	id, _ := strconv.ParseInt(string(f[1]), 10, 64)
	return id
}

func (c *concState) name() string {
	if v, ok := c.names.Load(goid()); ok {
		return v.(string)
	}
	return "main"
}

func (c *concState) dbIdx(db *nutsdb.DB) (string, int) {
	n, ok := c.dbName[db]
	if !ok {
		return "-", -1
	}
	i, _ := strconv.Atoi(n[1:])
	return n, i - 1
}

func (c *concState) install() {
	nutsdb.VerifLockHook = func(ev string, db *nutsdb.DB, writable bool) {
		d, i := c.dbIdx(db)
		g := c.name()
		c.mu.Lock()
		c.seq++
		c.lockEvs = append(c.lockEvs, hx.Ev{"ev": ev, "g": g, "db": d, "w": writable})
		c.mu.Unlock()
		if ev == "acq" && writable && i >= 0 {
			atomic.AddInt64(&c.wacq[i], 1)
		}
	}
	nutsdb.VerifAccessHook = func(obj string, write bool, db *nutsdb.DB) {
		d, _ := c.dbIdx(db)
		g := c.name()
		c.mu.Lock()
		c.seq++
		c.lockEvs = append(c.lockEvs, hx.Ev{"ev": "access", "g": g, "db": d, "obj": obj, "w": write, "merger": len(g) > 0 && g[0] == 'm'})
		c.mu.Unlock()
	}
	nutsdb.VerifGateHook = func(site string, db *nutsdb.DB) {
		if site == "backup-copy" {
			if _, i := c.dbIdx(db); i >= 0 {
				c.bseen.Store(c.name(), atomic.LoadInt64(&c.wacq[i]))
			}
		}
		c.yield()
	}
}

func (c *concState) uninstall() {
	nutsdb.VerifLockHook, nutsdb.VerifAccessHook, nutsdb.VerifGateHook = nil, nil, nil
}

// yield perturbs the schedule from the seed.
func (c *concState) yield() {
	c.rmu.Lock()
	x := c.rnd.Intn(100)
	c.rmu.Unlock()
	switch {
	case x < c.yieldPct:
		runtime.Gosched()
	case x < c.yieldPct+5:
		time.Sleep(time.Duration(20+x) * time.Microsecond)
	}
}

func (g *gen) histConc(o concOpts) {
	mode := nutsdb.HintKeyValAndRAMIdxMode
	switch g.c.Mode {
	case "keyonly":
		mode = nutsdb.HintKeyAndRAMIdxMode
	case "sparse":
		mode = nutsdb.HintBPTSparseIdxMode
	}
	c := &concState{dbName: map[*nutsdb.DB]string{}, wacq: make([]int64, o.ndb), rnd: rand.New(rand.NewSource(g.r.Int63())), yieldPct: 30 + g.r.Intn(40)}
	buckets := []string{"b1", "b2"}
	if mode == nutsdb.HintBPTSparseIdxMode {
		buckets = []string{"b1"}
	}
	g.u = &hx.Universe{KvBuckets: buckets}
	var dbs []*nutsdb.DB
	var opts []nutsdb.Options
	for d := 0; d < o.ndb; d++ {
		dir := fmt.Sprintf("%s/cdb-%d-%d", g.c.Tmp, g.hist, d)
		os.RemoveAll(dir)
		opt := nutsdb.DefaultOptions
		opt.Dir = dir
		opt.EntryIdxMode = mode
		opt.RWMode = rwOf(g.c.RW, g.r)
		opt.SegmentSize = int64(256 + g.r.Intn(3)*128)
		opt.SyncEnable = false
		db, err := nutsdb.Open(opt)
		if err != nil {
			fmt.Fprintln(os.Stderr, "harness: open failed:", err)
			os.Exit(2)
		}
		dbs = append(dbs, db)
		opts = append(opts, opt)
		c.dbName[db] = fmt.Sprintf("d%d", d+1)
	}
	c.install()
	defer c.uninstall()
	c.mu.Lock()
	c.lockEvs = append(c.lockEvs, hx.Ev{"ev": "reset"})
	c.mu.Unlock()

	var txmu sync.Mutex
	var txs []*concTx
	var arr int64
	var wg sync.WaitGroup
	base := g.s.R.Base
	newSess := func(d int) *hx.Sess {
		r := &hx.Recorder{Hold: true, Cnt: map[string]int{}, Base: base}
		return &hx.Sess{R: r, DB: dbs[d], Opt: opts[d], U: g.u}
	}
	var panics int64
	runTx := func(name string, rr *rand.Rand, d int, w bool) {
		s := newSess(d)
		tick := atomic.AddInt64(&c.tick, 1)
		t, err := s.Begin(w)
		if err != nil {
			return
		}
		s.R.Evs[len(s.R.Evs)-1]["tick"] = tick
		wseen := atomic.LoadInt64(&c.wacq[d])
		gg := &gen{c: g.c, r: rr, s: s, u: g.u}
		if w {
			n := 1 + rr.Intn(3)
			for j := 0; j < n; j++ {
				b := pick(rr, g.u.KvBuckets)
				k := []byte(pick(rr, kvKeys))
				if rr.Intn(5) == 0 {
					t.Delete(b, k)
				} else {
					t.Put(b, k, []byte(fmt.Sprintf("%s-%d", name, tick)), 0)
				}
				c.yield()
			}
			if rr.Intn(10) == 0 {
				t.Rollback()
			} else {
				t.Commit(nil)
			}
		} else {
			// a read-only transaction reads its snapshot twice, with yields in between
			b := pick(rr, g.u.KvBuckets)
			for rep := 0; rep < 2; rep++ {
				for _, k := range kvKeys {
					if rr.Intn(2) == 0 {
						t.Get(b, []byte(k))
					}
				}
				t.GetAll(b)
				if mode != nutsdb.HintBPTSparseIdxMode {
					gg.kvReads(t, b, false)
				}
				c.yield()
				runtime.Gosched()
			}
			t.Rollback()
		}
		s.R.Evs[len(s.R.Evs)-1]["etick"] = atomic.AddInt64(&c.tick, 1)
		atomic.AddInt64(&panics, int64(s.Panics))
		txmu.Lock()
		arr++
		txs = append(txs, &concTx{db: d, w: w, wseen: wseen, tick: tick, arr: arr, events: s.R.Evs})
		txmu.Unlock()
	}
	for i := 0; i < o.ngor; i++ {
		wg.Add(1)
		name := fmt.Sprintf("g%d", i+1)
		seed := g.r.Int63()
		go func() {
			defer wg.Done()
			c.names.Store(goid(), name)
			rr := rand.New(rand.NewSource(seed))
			for j := 0; j < o.ntx; j++ {
				runTx(name, rr, rr.Intn(o.ndb), rr.Intn(100) < 45)
				c.yield()
			}
		}()
	}
	stop := make(chan struct{})
	var aux sync.WaitGroup
	if o.gated {
		// Forced schedule (witness of F-C17-2).  Fill two segments, start Merge,
		// hold it at the gate in front of its first rewrite, commit an update of
		// a key of the scanned segment, let Merge continue, read the key.
		wg.Wait()
		reached, resume := make(chan struct{}), make(chan struct{})
		var once sync.Once
		nutsdb.VerifGateHook = func(site string, db *nutsdb.DB) {
			if site == "merge-rewrite" && c.name() == "m1" {
				once.Do(func() { close(reached); <-resume })
			}
		}
		mdone := make(chan struct{})
		go func() {
			c.names.Store(goid(), "m1")
			dbs[0].Merge()
			close(mdone)
		}()
		rr := rand.New(rand.NewSource(g.r.Int63()))
		c.names.Store(goid(), "g0")
		select {
		case <-reached:
			// update every key of the universe: some of them live in the scanned segment
			for _, k := range kvKeys {
				s := newSess(0)
				t, err := s.Begin(true)
				if err != nil {
					break
				}
				t.Put("b1", []byte(k), []byte("new-"+k), 0)
				t.Commit(nil)
				txmu.Lock()
				arr++
				txs = append(txs, &concTx{db: 0, w: true, wseen: atomic.LoadInt64(&c.wacq[0]), tick: atomic.LoadInt64(&c.tick), arr: arr, events: s.R.Evs})
				txmu.Unlock()
			}
			close(resume)
		case <-mdone: // nothing to rewrite
		}
		<-mdone
		runTx("g0", rr, 0, false)
	}
	if o.merger && !o.gated {
		aux.Add(1)
		go func() {
			defer aux.Done()
			c.names.Store(goid(), "m1")
			for {
				select {
				case <-stop:
					return
				default:
				}
				func() {
					defer func() {
						if r := recover(); r != nil {
							atomic.AddInt64(&panics, 1)
							txmu.Lock()
							arr++
							txs = append(txs, &concTx{db: 0, w: false, wseen: 1 << 40, tick: atomic.LoadInt64(&c.tick), arr: arr, events: []hx.Ev{{"op": "merge", "panic": fmt.Sprint(r), "err": true, "t0": 0, "t1": 0}}})
							txmu.Unlock()
						}
					}()
					dbs[0].Merge()
				}()
				time.Sleep(200 * time.Microsecond)
			}
		}()
	}
	if o.backup {
		aux.Add(1)
		bseed := g.r.Int63()
		go func() {
			defer aux.Done()
			c.names.Store(goid(), "b1")
			rr := rand.New(rand.NewSource(bseed))
			for n := 0; ; n++ {
				select {
				case <-stop:
					return
				default:
				}
				d := rr.Intn(o.ndb)
				dir := fmt.Sprintf("%s/cbak-%d-%d", g.c.Tmp, g.hist, n)
				os.RemoveAll(dir)
				e := hx.Ev{"op": "backup", "err": false, "o": emptyObs}
				e["t0"] = g.s.R.Now()
				c.bseen.Delete("b1")
				btick := atomic.LoadInt64(&c.tick)
				err := dbs[d].Backup(dir)
				ws, ok := c.bseen.Load("b1")
				if err != nil || !ok {
					e["err"] = true
					if err != nil {
						e["msg"] = err.Error()
					}
				} else {
					ob, oerr := hx.ObserveCopy(opts[d], dir, g.u)
					if oerr != nil {
						e["err"] = true
						e["msg"] = oerr.Error()
					} else {
						e["o"] = ob
					}
				}
				e["t1"] = g.s.R.Now()
				os.RemoveAll(dir)
				if ok {
					txmu.Lock()
					arr++
					txs = append(txs, &concTx{db: d, w: false, wseen: ws.(int64), tick: btick, arr: arr, events: []hx.Ev{e}})
					txmu.Unlock()
				}
				time.Sleep(300 * time.Microsecond)
			}
		}()
	}
	done := make(chan struct{})
	go func() { wg.Wait(); close(done) }()
	// deadlock watchdog: no transaction began or ended for HangAfter (measured
	// on progress, not on the duration of the whole history: a large
	// race-instrumented history on a busy machine runs for minutes)
	hung := make(chan struct{})
	go func() {
		last, since := atomic.LoadInt64(&c.tick), time.Now()
		for {
			select {
			case <-done:
				return
			case <-time.After(time.Second):
			}
			if now := atomic.LoadInt64(&c.tick); now != last {
				last, since = now, time.Now()
			} else if time.Since(since) > hx.HangAfter {
				close(hung)
				return
			}
		}
	}()
	select {
	case <-done:
	case <-hung:
		// deadlock: some goroutine never got the lock
		g.s.R.Emit(hx.Ev{"op": "reset", "family": g.c.Family, "hist": g.hist})
		g.s.R.Emit(hx.Ev{"op": "begin", "panic": "deadlock: no transaction began or ended for " + hx.HangAfter.String(), "err": true, "t0": 0, "t1": 0})
		g.s.R.Close()
		if g.s.OnHang != nil {
			g.s.OnHang()
		}
		os.Exit(0)
	}
	close(stop)
	aux.Wait()
	c.uninstall()
	// calibration: every transaction must have produced an acquisition and a
	// release event; a silent lock hook is an infrastructure error, not a verdict
	nacq := 0
	for _, e := range c.lockEvs {
		if e["ev"] == "acq" {
			nacq++
		}
	}
	txmu.Lock()
	ntx := len(txs)
	txmu.Unlock()
	if nacq < ntx-2 {
		fmt.Fprintf(os.Stderr, "harness: the lock hook reported %d acquisitions for %d transactions: hooks not compiled in or removed\n", nacq, ntx)
		os.Exit(2)
	}
	g.s.Panics += int(panics)
	// a final observation and reopen of every database, as the last "transactions"
	for d := 0; d < o.ndb; d++ {
		s := newSess(d)
		s.Obs()
		s.Close()
		if s.Open() == nil {
			s.Obs()
			s.Close()
		}
		txs = append(txs, &concTx{db: d, w: false, wseen: 1 << 41, tick: 1 << 41, arr: 1 << 41, events: s.R.Evs})
		os.RemoveAll(opts[d].Dir)
	}
	// linearise: per database, writers in lock order, every reader after the
	// last writer that acquired the lock before it
	sort.SliceStable(txs, func(i, j int) bool {
		a, b := txs[i], txs[j]
		if a.db != b.db {
			return a.db < b.db
		}
		if a.wseen != b.wseen {
			return a.wseen < b.wseen
		}
		if a.w != b.w {
			return a.w
		}
		if a.tick != b.tick {
			return a.tick < b.tick
		}
		return a.arr < b.arr
	})
	cur := -1
	for _, t := range txs {
		if t.db != cur {
			cur = t.db
			g.s.R.Emit(hx.Ev{"op": "reset", "family": g.c.Family, "hist": g.hist, "db": cur + 1, "mode": int(mode), "merger": o.merger})
		}
		for _, e := range t.events {
			g.s.R.Emit(e)
		}
	}
	g.lockEvs = append(g.lockEvs, c.lockEvs...)
	g.ntx += len(txs)
}
