package main

import (
	"crypto/sha1"
	"encoding/hex"
	"encoding/json"
	"fmt"
	"math/rand"

	"github.com/xujiajun/nutsdb"
	"verifharness/internal/hx"
)

// histProduct (C19): the same seeded history is executed once under every
// combination of RWMode x StartFileLoadingMode x SyncEnable (x the two RAM
// index modes for key/value histories).  The events of the first run are
// written with a field "alt" holding, per configuration, a digest of that
// configuration's event at the same position (operation, arguments and
// results; clock readings and ids removed).  The specification requires all
// digests to be equal and the first run to be a behaviour of Nuts.tla.
func (g *gen) histProduct(fam string) {
	kvOnly := fam != "product"
	type conf struct {
		mode      nutsdb.EntryIdxMode
		rw, load  nutsdb.RWMode
		sync      bool
	}
	var confs []conf
	modes := []nutsdb.EntryIdxMode{nutsdb.HintKeyValAndRAMIdxMode}
	if kvOnly {
		modes = append(modes, nutsdb.HintKeyAndRAMIdxMode)
	}
	if fam == "productsparse" {
		// single-bucket key/value histories also in sparse mode
		modes = append(modes, nutsdb.HintBPTSparseIdxMode)
		g.oneBucket = true
		defer func() { g.oneBucket = false }()
	}
	for _, m := range modes {
		for _, rw := range []nutsdb.RWMode{nutsdb.FileIO, nutsdb.MMap} {
			for _, ld := range []nutsdb.RWMode{nutsdb.FileIO, nutsdb.MMap} {
				for _, sy := range []bool{false, true} {
					confs = append(confs, conf{m, rw, ld, sy})
				}
			}
		}
	}
	rec := g.s.R
	g.noSPop = true
	var runs [][]hx.Ev
	for _, c := range confs {
		c := c
		g.r = rand.New(rand.NewSource(g.seed0*7919 + int64(g.hist)))
		g.forceOpt = func(o *nutsdb.Options) {
			o.EntryIdxMode, o.RWMode, o.StartFileLoadingMode, o.SyncEnable = c.mode, c.rw, c.load, c.sync
		}
		g.c.Mode = map[nutsdb.EntryIdxMode]string{nutsdb.HintKeyValAndRAMIdxMode: "keyval", nutsdb.HintKeyAndRAMIdxMode: "keyonly", nutsdb.HintBPTSparseIdxMode: "sparse"}[c.mode]
		g.c.RW = map[nutsdb.RWMode]string{nutsdb.FileIO: "fileio", nutsdb.MMap: "mmap"}[c.rw]
		rec.Hold = true
		if fam == "productfill" {
			g.histFill()
		} else if fam == "productsparse" {
			g.histKV()
		} else if kvOnly {
			g.histMixed(mixOpts{kinds: []string{"kv"}, pMulti: 50, pNoCommit: 15, pMerge: 6})
		} else {
			g.histMixed(mixOpts{kinds: []string{"kv", "list", "set", "zset"}, pMulti: 50, pNoCommit: 15})
		}
		runs = append(runs, rec.TakeHeld())
	}
	g.forceOpt = nil
	base := runs[0]
	for i, e := range base {
		alt := make([]string, len(runs))
		for j, r := range runs {
			if i < len(r) {
				alt[j] = digest(r[i])
			} else {
				alt[j] = "missing"
			}
		}
		e["alt"] = alt
		rec.Emit(e)
	}
	// a configuration that produced more events than the first one
	for j, r := range runs {
		if len(r) > len(base) {
			rec.Emit(hx.Ev{"op": "obs", "panic": fmt.Sprintf("configuration %d produced %d events, the first one %d", j, len(r), len(base)), "t0": 0, "t1": 0})
		}
	}
	g.configs = len(confs)
	// distinct compared calls: positions whose (operation, arguments, result) digest differs from every earlier position
	seen := map[string]bool{}
	for _, e := range base {
		d := digest(e)
		if !seen[d] {
			seen[d] = true
			g.productDistinct++
		}
	}
}

func digest(e hx.Ev) string {
	m := map[string]interface{}{}
	for k, v := range e {
		switch k {
		case "t0", "t1", "tsLo", "tsHi", "id", "msg", "smsg", "omsg", "mode", "rw", "sync", "load", "alt", "cmp", "berr", "bok", "sparse":
		default:
			m[k] = v
		}
	}
	// a scan that finds nothing may say so with an error or with an empty
	// result: one observation (the specification treats them alike)
	switch m["op"] {
	case "getall", "range", "pscan", "psscan":
		empty := false
		switch r := m["res"].(type) {
		case []hx.Ev:
			empty = len(r) == 0
		case []interface{}:
			empty = len(r) == 0
		}
		if empty {
			m["err"] = true
		}
	}
	b, _ := json.Marshal(m)
	h := sha1.Sum(b)
	return hex.EncodeToString(h[:6])
}

var _ = fmt.Sprint
