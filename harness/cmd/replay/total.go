package main

import (
	"bufio"
	"encoding/json"
	"errors"
	"fmt"
	"math"
	"os"
	"strings"
	"time"

	"github.com/xujiajun/nutsdb"
	"github.com/xujiajun/nutsdb/ds/zset"
	"verifharness/internal/hx"
)

// total mode (C20): executes the call descriptors emitted by ApiTotal.tla.
// Each call runs under recover(); the recording holds only outcome classes.

type tcall struct {
	M    string   `json:"m"`
	Life string   `json:"life"`
	Args []string `json:"args"`
}

type targs struct {
	a []string
	i int
}

func (t *targs) next() string { s := t.a[t.i]; t.i++; return s }

func tokBytes(s string) []byte {
	switch s {
	case "nil":
		return nil
	case "empty":
		return []byte{}
	}
	return []byte(s)
}

func (t *targs) bk() (string, []byte) {
	p := strings.SplitN(t.next(), ":", 2)
	b := p[0]
	if b == "empty" {
		b = ""
	}
	return b, tokBytes(p[1])
}

func (t *targs) b() string {
	s := t.next()
	if s == "empty" {
		return ""
	}
	return s
}

func (t *targs) v() []byte { return tokBytes(t.next()) }

func (t *targs) vs() [][]byte {
	s := t.next()
	if s == "none" {
		return nil
	}
	var out [][]byte
	for _, x := range strings.Split(s, ",") {
		out = append(out, tokBytes(x))
	}
	return out
}

func (t *targs) n() int {
	switch s := t.next(); s {
	case "min":
		return math.MinInt64
	case "max":
		return math.MaxInt64
	default:
		var n int
		fmt.Sscan(s, &n)
		return n
	}
}

func (t *targs) f() float64 {
	switch s := t.next(); s {
	case "nan":
		return math.NaN()
	case "+inf":
		return math.Inf(1)
	case "-inf":
		return math.Inf(-1)
	default:
		var f float64
		fmt.Sscan(s, &f)
		return f
	}
}

func (t *targs) u32() uint32 {
	switch s := t.next(); s {
	case "max":
		return math.MaxUint32
	case "1":
		return 1
	}
	return 0
}

func (t *targs) u64() uint64 {
	switch s := t.next(); s {
	case "max":
		return math.MaxUint64
	case "1":
		return 1
	case "now":
		return uint64(time.Now().Unix())
	}
	return 0
}

func (t *targs) opts() *zset.GetByScoreRangeOptions {
	switch t.next() {
	case "zero":
		return &zset.GetByScoreRangeOptions{}
	case "lim1-excl":
		return &zset.GetByScoreRangeOptions{Limit: 1, ExcludeStart: true, ExcludeEnd: true}
	case "limneg":
		return &zset.GetByScoreRangeOptions{Limit: -3}
	}
	return nil
}

// callTx invokes method m of tx with the arguments a.
func callTx(tx *nutsdb.Tx, m string, a *targs) error {
	var err error
	switch m {
	case "Put":
		b, k := a.bk()
		err = tx.Put(b, k, a.v(), a.u32())
	case "PutWithTimestamp":
		b, k := a.bk()
		v := a.v()
		ttl := a.u32()
		err = tx.PutWithTimestamp(b, k, v, ttl, a.u64())
	case "Get":
		b, k := a.bk()
		_, err = tx.Get(b, k)
	case "GetAll":
		_, err = tx.GetAll(a.b())
	case "RangeScan":
		b, k := a.bk()
		_, err = tx.RangeScan(b, k, a.v())
	case "PrefixScan":
		b, k := a.bk()
		o := a.n()
		_, _, err = tx.PrefixScan(b, k, o, a.n())
	case "PrefixSearchScan":
		b, k := a.bk()
		r := a.next()
		o := a.n()
		_, _, err = tx.PrefixSearchScan(b, k, r, o, a.n())
	case "Delete":
		b, k := a.bk()
		err = tx.Delete(b, k)
	case "FindTxIDOnDisk":
		x := a.u64()
		_, err = tx.FindTxIDOnDisk(x, a.u64())
	case "FindOnDisk":
		x := a.u64()
		y := a.u64()
		k := a.v()
		_, err = tx.FindOnDisk(x, y, k, a.v())
	case "FindLeafOnDisk":
		x := a.n()
		y := a.n()
		k := a.v()
		_, err = tx.FindLeafOnDisk(int64(x), int64(y), k, a.v())
	case "RPop":
		b, k := a.bk()
		_, err = tx.RPop(b, k)
	case "RPeek":
		b, k := a.bk()
		_, err = tx.RPeek(b, k)
	case "RPush":
		b, k := a.bk()
		err = tx.RPush(b, k, a.vs()...)
	case "LPush":
		b, k := a.bk()
		err = tx.LPush(b, k, a.vs()...)
	case "LPop":
		b, k := a.bk()
		_, err = tx.LPop(b, k)
	case "LPeek":
		b, k := a.bk()
		_, err = tx.LPeek(b, k)
	case "LSize":
		b, k := a.bk()
		_, err = tx.LSize(b, k)
	case "LRange":
		b, k := a.bk()
		s := a.n()
		_, err = tx.LRange(b, k, s, a.n())
	case "LRem":
		b, k := a.bk()
		c := a.n()
		_, err = tx.LRem(b, k, c, a.v())
	case "LSet":
		b, k := a.bk()
		i := a.n()
		err = tx.LSet(b, k, i, a.v())
	case "LTrim":
		b, k := a.bk()
		s := a.n()
		err = tx.LTrim(b, k, s, a.n())
	case "SAdd":
		b, k := a.bk()
		err = tx.SAdd(b, k, a.vs()...)
	case "SRem":
		b, k := a.bk()
		err = tx.SRem(b, k, a.vs()...)
	case "SAreMembers":
		b, k := a.bk()
		_, err = tx.SAreMembers(b, k, a.vs()...)
	case "SIsMember":
		b, k := a.bk()
		_, err = tx.SIsMember(b, k, a.v())
	case "SMembers":
		b, k := a.bk()
		_, err = tx.SMembers(b, k)
	case "SHasKey":
		b, k := a.bk()
		_, err = tx.SHasKey(b, k)
	case "SPop":
		b, k := a.bk()
		_, err = tx.SPop(b, k)
	case "SCard":
		b, k := a.bk()
		_, err = tx.SCard(b, k)
	case "SDiffByOneBucket":
		b, k := a.bk()
		_, err = tx.SDiffByOneBucket(b, k, a.v())
	case "SDiffByTwoBuckets":
		b, k := a.bk()
		b2, k2 := a.bk()
		_, err = tx.SDiffByTwoBuckets(b, k, b2, k2)
	case "SMoveByOneBucket":
		b, k := a.bk()
		k2 := a.v()
		_, err = tx.SMoveByOneBucket(b, k, k2, a.v())
	case "SMoveByTwoBuckets":
		b, k := a.bk()
		b2, k2 := a.bk()
		_, err = tx.SMoveByTwoBuckets(b, k, b2, k2, a.v())
	case "SUnionByOneBucket":
		b, k := a.bk()
		_, err = tx.SUnionByOneBucket(b, k, a.v())
	case "SUnionByTwoBuckets":
		b, k := a.bk()
		b2, k2 := a.bk()
		_, err = tx.SUnionByTwoBuckets(b, k, b2, k2)
	case "ZAdd":
		b, k := a.bk()
		f := a.f()
		err = tx.ZAdd(b, k, f, a.v())
	case "ZMembers":
		_, err = tx.ZMembers(a.b())
	case "ZCard":
		_, err = tx.ZCard(a.b())
	case "ZCount":
		b := a.b()
		s := a.f()
		e := a.f()
		_, err = tx.ZCount(b, s, e, a.opts())
	case "ZPopMax":
		_, err = tx.ZPopMax(a.b())
	case "ZPopMin":
		_, err = tx.ZPopMin(a.b())
	case "ZPeekMax":
		_, err = tx.ZPeekMax(a.b())
	case "ZPeekMin":
		_, err = tx.ZPeekMin(a.b())
	case "ZRangeByScore":
		b := a.b()
		s := a.f()
		e := a.f()
		_, err = tx.ZRangeByScore(b, s, e, a.opts())
	case "ZRangeByRank":
		b := a.b()
		s := a.n()
		_, err = tx.ZRangeByRank(b, s, a.n())
	case "ZRem":
		b, k := a.bk()
		err = tx.ZRem(b, string(k))
	case "ZRemRangeByRank":
		b := a.b()
		s := a.n()
		err = tx.ZRemRangeByRank(b, s, a.n())
	case "ZRank":
		b, k := a.bk()
		_, err = tx.ZRank(b, k)
	case "ZRevRank":
		b, k := a.bk()
		_, err = tx.ZRevRank(b, k)
	case "ZScore":
		b, k := a.bk()
		_, err = tx.ZScore(b, k)
	case "ZGetByKey":
		b, k := a.bk()
		_, err = tx.ZGetByKey(b, k)
	case "Commit":
		err = tx.Commit()
	case "Rollback":
		err = tx.Rollback()
	default:
		fmt.Fprintln(os.Stderr, "replay: unknown method", m)
		os.Exit(2)
	}
	return err
}

// totalMutating: the Tx methods that change contents when they succeed.
var totalMutating = map[string]bool{"Put": true, "PutWithTimestamp": true, "Delete": true, "RPop": true, "RPush": true, "LPush": true, "LPop": true,
	"LRem": true, "LSet": true, "LTrim": true, "SAdd": true, "SRem": true, "SPop": true, "SMoveByOneBucket": true, "SMoveByTwoBuckets": true,
	"ZAdd": true, "ZPopMax": true, "ZPopMin": true, "ZRem": true, "ZRemRangeByRank": true}

func preload(db *nutsdb.DB) {
	err := db.Update(func(tx *nutsdb.Tx) error {
		tx.Put("b", []byte("k"), []byte("v"), 0)
		tx.Put("b", []byte("k2"), []byte("v2"), 0)
		tx.RPush("b", []byte("k"), []byte("a"), []byte("b"), []byte("c"))
		tx.SAdd("b", []byte("k"), []byte("a"), []byte("b"))
		tx.SAdd("b", []byte("v"), []byte("c"))
		tx.ZAdd("b", []byte("k"), 1, []byte("v"))
		tx.ZAdd("b", []byte("m"), 2, []byte("v"))
		tx.ZAdd("b", []byte(""), 0, []byte("v"))
		return nil
	})
	// several data files, so that Merge has work to do
	for i := 0; i < 6 && err == nil; i++ {
		err = db.Update(func(tx *nutsdb.Tx) error {
			return tx.Put("fill", []byte(fmt.Sprintf("f%d", i%3)), make([]byte, 300), 0)
		})
	}
	if err != nil {
		fmt.Fprintln(os.Stderr, "replay: preload failed:", err)
		os.Exit(2)
	}
}

// guarded runs f under recover and a watchdog.
func guarded(f func() error) (err error, panicked bool, hang bool, msg string) {
	done := make(chan struct{})
	go func() {
		defer close(done)
		defer func() {
			if r := recover(); r != nil {
				panicked = true
				msg = fmt.Sprint(r)
			}
		}()
		err = f()
	}()
	select {
	case <-done:
	case <-time.After(90 * time.Second):
		return errors.New("hang"), false, true, "the call did not return within 90s"
	}
	return
}

// seqCall performs one call of the sequence alphabet on the tiny structures.
func seqCall(tx *nutsdb.Tx, name string) error {
	b, k := "b", []byte("k")
	var err error
	switch name {
	case "RPop":
		_, err = tx.RPop(b, k)
	case "LPop":
		_, err = tx.LPop(b, k)
	case "LRem":
		_, err = tx.LRem(b, k, 0, []byte("a"))
	case "LTrim":
		err = tx.LTrim(b, k, 0, 0)
	case "LSet":
		err = tx.LSet(b, k, 0, []byte("z"))
	case "RPush":
		err = tx.RPush(b, k, []byte("a"))
	case "SPop":
		_, err = tx.SPop(b, k)
	case "SRem":
		err = tx.SRem(b, k, []byte("a"))
	case "SAdd":
		err = tx.SAdd(b, k, []byte("a"))
	case "ZPopMax":
		_, err = tx.ZPopMax(b)
	case "ZPopMin":
		_, err = tx.ZPopMin(b)
	case "ZRem":
		err = tx.ZRem(b, "k")
	case "ZRemRangeByRank":
		err = tx.ZRemRangeByRank(b, 1, -1)
	case "ZAdd":
		err = tx.ZAdd(b, k, 1, []byte("v"))
	case "Put":
		err = tx.Put(b, k, []byte("v"), 0)
	case "Delete":
		err = tx.Delete(b, k)
	default:
		fmt.Fprintln(os.Stderr, "replay: unknown sequence call", name)
		os.Exit(2)
	}
	return err
}

// runSeq: a fresh database with a one-element list, set and sorted set and one
// key; the calls of the sequence in one write transaction; Commit; reopen.
func runSeq(c tcall, dir string, panics *int) hx.Ev {
	ev := hx.Ev{"op": "call", "m": c.M, "life": c.Life, "args": c.Args, "panic": false, "commitpanic": false, "hang": false, "err": false, "msg": ""}
	os.RemoveAll(dir)
	defer os.RemoveAll(dir)
	opt := nutsdb.DefaultOptions
	opt.Dir = dir
	opt.SegmentSize = 4096
	db, err := nutsdb.Open(opt)
	if err != nil {
		fmt.Fprintln(os.Stderr, "replay: open failed:", err)
		os.Exit(2)
	}
	db.Update(func(tx *nutsdb.Tx) error {
		tx.Put("b", []byte("k"), []byte("v"), 0)
		tx.RPush("b", []byte("k"), []byte("a"))
		tx.SAdd("b", []byte("k"), []byte("a"))
		tx.ZAdd("b", []byte("k"), 1, []byte("v"))
		return nil
	})
	tx, err := db.Begin(true)
	if err != nil {
		os.Exit(2)
	}
	for _, name := range c.Args {
		name := name
		e, p, h, msg := guarded(func() error { return seqCall(tx, name) })
		if e != nil {
			ev["err"] = true
		}
		if p || h {
			ev["panic"], ev["hang"], ev["msg"] = p, h, name+": "+msg
			*panics++
			return ev
		}
	}
	_, cp, ch, cmsg := guarded(func() error { return tx.Commit() })
	if cp || ch {
		ev["commitpanic"], ev["msg"] = true, "Commit: "+cmsg
		*panics++
		return ev
	}
	guarded(func() error { return tx.Rollback() })
	// what was committed must not make the next Open panic either
	guarded(func() error { return db.Close() })
	_, op, oh, omsg := guarded(func() error {
		d2, e := nutsdb.Open(opt)
		if e == nil {
			d2.Close()
		}
		return e
	})
	if op || oh {
		ev["commitpanic"], ev["msg"] = true, "Open after Commit: "+omsg
		*panics++
	}
	return ev
}

func runTotal(in, out, tmp, summary string) {
	f, err := os.Open(in)
	if err != nil {
		fmt.Fprintln(os.Stderr, "replay:", err)
		os.Exit(2)
	}
	var calls []tcall
	sc := bufio.NewScanner(f)
	sc.Buffer(make([]byte, 1<<20), 1<<26)
	for sc.Scan() {
		var c tcall
		if err := json.Unmarshal(sc.Bytes(), &c); err != nil {
			fmt.Fprintln(os.Stderr, "replay: bad call:", err)
			os.Exit(2)
		}
		calls = append(calls, c)
	}
	f.Close()
	rec, err := hx.NewRecorder(out)
	if err != nil {
		os.Exit(2)
	}
	var db *nutsdb.DB
	dbn, panics := 0, 0
	dir := ""
	fresh := func() {
		if db != nil {
			guarded(func() error { return db.Close() })
		}
		if dir != "" {
			os.RemoveAll(dir)
		}
		dbn++
		dir = fmt.Sprintf("%s/tot-%d", tmp, dbn)
		os.RemoveAll(dir)
		opt := nutsdb.DefaultOptions
		opt.Dir = dir
		opt.SegmentSize = 1024
		opt.SyncEnable = false
		opt.RWMode = nutsdb.RWMode(dbn % 2)
		var e error
		db, e = nutsdb.Open(opt)
		if e != nil {
			fmt.Fprintln(os.Stderr, "replay: open failed:", e)
			os.Exit(2)
		}
		preload(db)
	}
	fresh()
	for ci, c := range calls {
		if ci%150 == 149 {
			fresh()
		}
		if c.M == "Seq" {
			rec.Emit(runSeq(c, fmt.Sprintf("%s/seq-%d", tmp, ci), &panics))
			continue
		}
		ev := hx.Ev{"op": "call", "m": c.M, "life": c.Life, "args": c.Args, "panic": false, "commitpanic": false, "hang": false, "err": false, "msg": ""}
		a := &targs{a: c.Args}
		if strings.HasPrefix(c.M, "DB") {
			d := db
			if c.Life == "closed" {
				fresh() // a database of its own, closed
				d = db
				guarded(func() error { return d.Close() })
			}
			e, p, h, msg := guarded(func() error {
				switch c.M {
				case "DBUpdate":
					k := a.v()
					return d.Update(func(tx *nutsdb.Tx) error { return tx.Put("b", k, []byte("v"), 0) })
				case "DBView":
					k := a.v()
					return d.View(func(tx *nutsdb.Tx) error { _, e := tx.Get("b", k); return e })
				case "DBBegin":
					tx, e := d.Begin(string(a.v()) == "v")
					if e == nil {
						return tx.Rollback()
					}
					return e
				case "DBMerge":
					return d.Merge()
				case "DBBackup":
					x := string(a.v())
					if x == "" {
						// an unusable destination (an existing regular file); never "" (the file system root)
						x = dir + "-bak-file"
						os.WriteFile(x, []byte("x"), 0644)
						defer os.Remove(x)
					} else {
						x = dir + "-bak-" + x
						defer os.RemoveAll(x)
					}
					return d.Backup(x)
				case "DBClose":
					return d.Close()
				}
				return nil
			})
			ev["err"], ev["panic"], ev["hang"], ev["msg"] = e != nil, p, h, msg
			if c.M == "DBClose" || c.Life == "closed" || p || h {
				db = nil
				fresh()
			}
			if p {
				panics++
			}
			rec.Emit(ev)
			continue
		}
		// transaction methods
		w := c.Life != "ro"
		var tx *nutsdb.Tx
		_, p0, h0, _ := guarded(func() error { var e error; tx, e = db.Begin(w); return e })
		if tx == nil || p0 || h0 {
			fmt.Fprintln(os.Stderr, "replay: Begin failed on a healthy database")
			os.Exit(2)
		}
		switch c.Life {
		case "committed", "closed-committed":
			tx.Put("b", []byte("k"), []byte("v"), 0)
			tx.Commit()
		case "rolledback", "closed-rolledback":
			tx.Rollback()
		}
		if strings.HasPrefix(c.Life, "closed-") {
			db.Close()
		}
		e, p, h, msg := guarded(func() error { return callTx(tx, c.M, a) })
		ev["err"], ev["panic"], ev["hang"], ev["msg"] = e != nil, p, h, msg
		finishedByCall := c.M == "Commit" || c.M == "Rollback"
		if (c.Life == "rw" || c.Life == "ro") && !h {
			if finishedByCall && e == nil && !p {
				// done
			} else if c.Life == "rw" && !p {
				// a call that succeeds never makes a later Commit panic
				_, cp, ch, cmsg := guarded(func() error { return tx.Commit() })
				if cp || ch {
					ev["commitpanic"] = true
					ev["msg"] = "Commit: " + cmsg
				}
				guarded(func() error { return tx.Rollback() })
			} else {
				guarded(func() error { return tx.Rollback() })
			}
		}
		if p || h || ev["commitpanic"] == true {
			panics++
			db = nil // possibly wedged: abandon it
			fresh()
		} else if strings.HasPrefix(c.Life, "closed-") {
			db = nil
			fresh()
		} else if c.Life == "rw" && e == nil && totalMutating[c.M] {
			// the call changed the preloaded structures: the next call starts
			// from the preloaded state again (every call meets the same state)
			fresh()
		}
		rec.Emit(ev)
	}
	rec.Close()
	if db != nil {
		guarded(func() error { return db.Close() })
	}
	os.RemoveAll(dir)
	if summary != "" {
		b, _ := json.Marshal(map[string]interface{}{"events": rec.N, "by_op": rec.Cnt, "histories": 1, "panics": panics, "executed": len(calls)})
		os.WriteFile(summary, b, 0644)
	}
}
