// replay: executes TLC-emitted transitions (DsGen.tla) on the real library
// and records what it saw.  It contains no expected values of its own: the
// recordings are validated by TLC against NutsTrace.tla.
package main

import (
	"bufio"
	"bytes"
	"regexp"
	"time"
	"encoding/json"
	"flag"
	"fmt"
	"math/rand"
	"os"
	"sort"

	"github.com/xujiajun/nutsdb"
	"github.com/xujiajun/nutsdb/ds/list"
	"github.com/xujiajun/nutsdb/ds/set"
	"github.com/xujiajun/nutsdb/ds/zset"
	"verifharness/internal/hx"
)

type call struct {
	Op   string   `json:"op"`
	B    string   `json:"b"`
	K    json.RawMessage `json:"k"`
	B2   string   `json:"b2"`
	K2   string   `json:"k2"`
	Vals []string `json:"vals"`
	V    string   `json:"v"`
	S    int      `json:"s"`
	E    int      `json:"e"`
	Cnt  int      `json:"cnt"`
	I    int      `json:"i"`
	Two  bool     `json:"two"`
	Exs  bool     `json:"exs"`
	Exe  bool     `json:"exe"`
	Lim  int      `json:"lim"`
	P    []int    `json:"p"`
	Off  int      `json:"off"`
	Reg  string   `json:"reg"`
}

type kvst struct {
	K  []int  `json:"k"`
	St string `json:"st"`
}

type znode struct {
	K []int  `json:"k"`
	S int    `json:"s"`
	V string `json:"v"`
}

type pre struct {
	List []string            `json:"list"`
	Sets map[string][]string `json:"sets"`
	Z    []znode             `json:"z"`
	KV   []kvst              `json:"kv"`
}

type scen struct {
	Kind string `json:"kind"`
	Pre  pre    `json:"pre"`
	Call call   `json:"call"`
}

func (c call) ks() string { // string key (lists, sets)
	var s string
	json.Unmarshal(c.K, &s)
	return s
}

func (c call) kb() []byte { // byte-sequence key (sorted sets)
	var a []int
	json.Unmarshal(c.K, &a)
	b := make([]byte, len(a))
	for i, x := range a {
		b[i] = byte(x)
	}
	return b
}

func bytesOf(a []int) []byte {
	b := make([]byte, len(a))
	for i, x := range a {
		b[i] = byte(x)
	}
	return b
}

func bs(ss []string) [][]byte {
	out := make([][]byte, len(ss))
	for i, s := range ss {
		out[i] = []byte(s)
	}
	return out
}

var mutating = map[string]bool{"rpush": true, "lpush": true, "lpop": true, "rpop": true, "lrem": true, "lset": true, "ltrim": true,
	"sadd": true, "srem": true, "spop": true, "smove": true, "zadd": true, "zrem": true, "zremrank": true, "zpopmax": true, "zpopmin": true}

// exec performs one call through the recorded transaction wrapper; bucket
// and keys are renamed by ren so that scenarios do not share state.
func exec(t *hx.Tx, c call, b string) {
	b2 := b
	switch c.Op {
	case "rpush":
		t.RPush(b, c.ks(), bs(c.Vals)...)
	case "lpush":
		t.LPush(b, c.ks(), bs(c.Vals)...)
	case "lpop":
		t.LPop(b, c.ks())
	case "rpop":
		t.RPop(b, c.ks())
	case "lpeek":
		t.LPeek(b, c.ks())
	case "rpeek":
		t.RPeek(b, c.ks())
	case "lsize":
		t.LSize(b, c.ks())
	case "lrange":
		t.LRange(b, c.ks(), c.S, c.E)
	case "ltrim":
		t.LTrim(b, c.ks(), c.S, c.E)
	case "lrem":
		t.LRem(b, c.ks(), c.Cnt, []byte(c.V))
	case "lset":
		t.LSet(b, c.ks(), c.I, []byte(c.V))
	case "sadd":
		t.SAdd(b, c.ks(), bs(c.Vals)...)
	case "srem":
		t.SRem(b, c.ks(), bs(c.Vals)...)
	case "spop":
		t.SPop(b, c.ks())
	case "smove":
		t.SMove(b, c.ks(), b2, c.K2, []byte(c.V), c.Two)
	case "sismember":
		t.SIsMember(b, c.ks(), []byte(c.V))
	case "saremembers":
		t.SAreMembers(b, c.ks(), bs(c.Vals)...)
	case "smembers":
		t.SMembers(b, c.ks())
	case "scard":
		t.SCard(b, c.ks())
	case "shaskey":
		t.SHasKey(b, c.ks())
	case "sdiff":
		t.SDiff(b, c.ks(), b2, c.K2, c.Two)
	case "sunion":
		t.SUnion(b, c.ks(), b2, c.K2, c.Two)
	case "zadd":
		t.ZAdd(b, c.kb(), float64(c.S), []byte(c.V))
	case "zrem":
		t.ZRem(b, string(c.kb()))
	case "zremrank":
		t.ZRemRangeByRank(b, c.S, c.E)
	case "zpopmax":
		t.ZPopMax(b)
	case "zpopmin":
		t.ZPopMin(b)
	case "zpeekmax":
		t.ZPeekMax(b)
	case "zpeekmin":
		t.ZPeekMin(b)
	case "zcard":
		t.ZCard(b)
	case "zmembers":
		t.ZMembers(b)
	case "zrangebyrank":
		t.ZRangeByRank(b, c.S, c.E)
	case "zrangebyscore":
		t.ZRangeByScore(b, c.S, c.E, c.Exs, c.Exe, c.Lim)
	case "zcount":
		t.ZCount(b, c.S, c.E, c.Exs, c.Exe, c.Lim)
	case "zrank":
		t.ZRank(b, c.kb())
	case "zrevrank":
		t.ZRevRank(b, c.kb())
	case "zscore":
		t.ZScore(b, c.kb())
	case "zgetbykey":
		t.ZGetByKey(b, c.kb())
	case "pscan":
		t.PrefixScan(b, bytesOf(c.P), c.Off, c.Lim)
	case "psscan":
		// the match set is computed with Go's regexp over the key universe
		// (the property is about liveness and paging, not about regexp)
		rgx, err := regexp.Compile(c.Reg)
		var ms [][]byte
		if err == nil {
			for _, k := range pageKeys {
				if bytes.HasPrefix(k, bytesOf(c.P)) && rgx.Match(bytes.TrimPrefix(k, bytesOf(c.P))) {
					ms = append(ms, k)
				}
			}
		}
		t.PrefixSearchScan(b, bytesOf(c.P), c.Reg, ms, err != nil, c.Off, c.Lim)
	default:
		fmt.Fprintln(os.Stderr, "replay: unknown op", c.Op)
		os.Exit(2)
	}
}

var pageKeys = [][]byte{[]byte("a"), []byte("ab"), []byte("abc"), []byte("b"), []byte("bc")}

func preKey(p pre) string {
	b, _ := json.Marshal(p)
	return string(b)
}

// build creates the pre-state in bucket b (one committed transaction).
func build(s *hx.Sess, kind string, p pre, b string) {
	t, err := s.Begin(true)
	if err != nil {
		fmt.Fprintln(os.Stderr, "replay: begin failed:", err)
		os.Exit(2)
	}
	switch kind {
	case "list":
		if len(p.List) > 0 {
			t.RPush(b, "k", bs(p.List)...)
		}
	case "set":
		ks := make([]string, 0, len(p.Sets))
		for k := range p.Sets {
			ks = append(ks, k)
		}
		sort.Strings(ks)
		for _, k := range ks {
			if len(p.Sets[k]) > 0 {
				t.SAdd(b, k, bs(p.Sets[k])...)
			}
		}
	case "kvpage":
		now := uint64(time.Now().Unix())
		for _, x := range p.KV {
			k := bytesOf(x.K)
			switch x.St {
			case "live":
				t.Put(b, k, append([]byte("v-"), k...), 0)
			case "deleted":
				t.Put(b, k, []byte("old"), 0)
			case "expired":
				t.PutTS(b, k, append([]byte("x-"), k...), 500, now-1000)
			}
		}
		t.Commit(nil)
		t, err = s.Begin(true)
		if err != nil {
			os.Exit(2)
		}
		for _, x := range p.KV {
			if x.St == "deleted" {
				t.Delete(b, bytesOf(x.K))
			}
		}
	case "zset":
		// insertion order varies with the layout seed; the skip list's level
		// choices come from math/rand, seeded by the caller
		idx := rand.Perm(len(p.Z))
		for _, i := range idx {
			n := p.Z[i]
			t.ZAdd(b, bytesOf(n.K), float64(n.S), []byte(n.V))
		}
	}
	t.Commit(nil)
}

// readBack records the post-state through the read API.
func readBack(t *hx.Tx, kind, b string) {
	switch kind {
	case "list":
		t.LRange(b, "k", 0, -1)
		t.LSize(b, "k")
	case "set":
		t.SMembers(b, "k1")
		t.SMembers(b, "k2")
		t.SCard(b, "k1")
	case "zset":
		t.ZRangeByRank(b, 1, -1)
		t.ZMembers(b)
		t.ZCard(b)
	}
}

func main() {
	in := flag.String("in", "", "scenario file (one JSON object per line, emitted by TLC)")
	out := flag.String("out", "trace.ndjson", "trace file")
	tmp := flag.String("tmp", os.TempDir(), "scratch directory")
	summary := flag.String("summary", "", "summary file")
	mode := flag.String("mode", "tx", "tx | intx | ds")
	layouts := flag.Int("layouts", 1, "skip-list level layouts per scenario group (sorted sets)")
	seed := flag.Int64("seed", 1, "seed for layouts and sampling")
	sample := flag.Int("sample", 0, "intx: number of two-operation transactions to sample (0 = all)")
	batch := flag.Int("batch", 1, "scenario groups per database / history")
	idx := flag.String("idx", "keyval", "index mode: keyval | keyonly | sparse")
	segsz := flag.Int64("seg", 64*1024, "segment size")
	flag.Parse()
	if *mode == "codec" {
		runCodec(*in, *out, *tmp, *summary)
		return
	}
	if *mode == "compat" {
		runCompat(*in, *out, *tmp, *summary, *seed)
		return
	}
	if *mode == "total" {
		runTotal(*in, *out, *tmp, *summary)
		return
	}

	f, err := os.Open(*in)
	if err != nil {
		fmt.Fprintln(os.Stderr, "replay:", err)
		os.Exit(2)
	}
	var scens []scen
	sc := bufio.NewScanner(f)
	sc.Buffer(make([]byte, 1<<20), 1<<26)
	for sc.Scan() {
		var s scen
		if err := json.Unmarshal(sc.Bytes(), &s); err != nil {
			fmt.Fprintln(os.Stderr, "replay: bad scenario:", err, sc.Text())
			os.Exit(2)
		}
		scens = append(scens, s)
	}
	f.Close()

	rec, err := hx.NewRecorder(*out)
	if err != nil {
		fmt.Fprintln(os.Stderr, "replay:", err)
		os.Exit(2)
	}
	// group by pre-state, keeping first-seen order
	groups := map[string][]scen{}
	var order []string
	for _, s := range scens {
		k := s.Kind + preKey(s.Pre)
		if _, ok := groups[k]; !ok {
			order = append(order, k)
		}
		groups[k] = append(groups[k], s)
	}
	r := rand.New(rand.NewSource(*seed))
	executed := 0
	sess := &hx.Sess{R: rec, U: &hx.Universe{}}
	dbn := 0
	openFresh := func() string {
		dbn++
		dir := fmt.Sprintf("%s/rp-%d", *tmp, dbn)
		os.RemoveAll(dir)
		opt := nutsdb.DefaultOptions
		opt.Dir = dir
		opt.SegmentSize = *segsz
		opt.SyncEnable = false
		switch *idx {
		case "keyonly":
			opt.EntryIdxMode = nutsdb.HintKeyAndRAMIdxMode
		case "sparse":
			opt.EntryIdxMode = nutsdb.HintBPTSparseIdxMode
		}
		opt.RWMode = nutsdb.RWMode(dbn % 2)
		sess.Opt = opt
		rec.Emit(hx.Ev{"op": "reset", "family": "replay-" + *mode, "db": dbn})
		if err := sess.OpenFirst(); err != nil {
			fmt.Fprintln(os.Stderr, "replay: open failed:", err)
			os.Exit(2)
		}
		return dir
	}

	switch *mode {
	case "tx":
		var dir string
		nb := 0
		for gi, gk := range order {
			g := groups[gk]
			if gi%*batch == 0 {
				if dir != "" {
					sess.Close()
					os.RemoveAll(dir)
				}
				dir = openFresh()
			}
			for lay := 0; lay < *layouts; lay++ {
				if g[0].Kind != "zset" && lay > 0 {
					break
				}
				rand.Seed(*seed*1000 + int64(lay))
				// all read-only calls on one copy of the pre-state, in one read-only transaction
				nb++
				b := fmt.Sprintf("g%d", nb)
				build(sess, g[0].Kind, g[0].Pre, b)
				t, _ := sess.Begin(false)
				for _, s := range g {
					if !mutating[s.Call.Op] {
						exec(t, s.Call, b)
						executed++
					}
				}
				t.Rollback()
				// every mutating call on its own copy
				for _, s := range g {
					if !mutating[s.Call.Op] {
						continue
					}
					nb++
					b := fmt.Sprintf("g%d", nb)
					build(sess, s.Kind, s.Pre, b)
					t, _ := sess.Begin(true)
					exec(t, s.Call, b)
					t.Commit(nil)
					executed++
					t, _ = sess.Begin(false)
					readBack(t, s.Kind, b)
					t.Rollback()
				}
			}
			// a clean reopen in the middle of the batch: the post-states must survive it
			if *batch > 1 && gi%*batch == *batch/2 || *batch == 1 && gi%7 == 3 {
				sess.Close()
				if sess.Open() != nil {
					fmt.Fprintln(os.Stderr, "replay: reopen failed (recorded)")
					break
				}
			}
		}
		if dir != "" {
			sess.Close()
			os.RemoveAll(dir)
		}
	case "intx":
		// two-operation write transactions: a mutating call c1 on pre-state P,
		// then any call c2 whose emitted pre-state is P too (it is evaluated
		// by the specification on P + c1, whatever that is)
		type pair struct{ a, b scen }
		var pairs []pair
		for _, gk := range order {
			g := groups[gk]
			for _, s1 := range g {
				if !mutating[s1.Call.Op] {
					continue
				}
				for _, s2 := range g {
					pairs = append(pairs, pair{s1, s2})
				}
			}
		}
		if *sample > 0 && *sample < len(pairs) {
			r.Shuffle(len(pairs), func(i, j int) { pairs[i], pairs[j] = pairs[j], pairs[i] })
			pairs = pairs[:*sample]
		}
		var dir string
		for pi, p := range pairs {
			if pi%200 == 0 {
				if dir != "" {
					sess.Close()
					os.RemoveAll(dir)
				}
				dir = openFresh()
			}
			b := fmt.Sprintf("g%d", pi)
			rand.Seed(*seed*1000 + int64(pi))
			build(sess, p.a.Kind, p.a.Pre, b)
			t, _ := sess.Begin(true)
			exec(t, p.a.Call, b)
			exec(t, p.b.Call, b)
			t.Commit(nil)
			executed += 2
			t, _ = sess.Begin(false)
			readBack(t, p.a.Kind, b)
			t.Rollback()
		}
		if dir != "" {
			sess.Close()
			os.RemoveAll(dir)
		}
	case "ds":
		executed = replayDS(rec, order, groups, *seed, *layouts)
	default:
		fmt.Fprintln(os.Stderr, "replay: unknown mode")
		os.Exit(2)
	}
	if err := rec.Close(); err != nil {
		fmt.Fprintln(os.Stderr, "replay:", err)
		os.Exit(2)
	}
	if *summary != "" {
		b, _ := json.Marshal(map[string]interface{}{"events": rec.N, "by_op": rec.Cnt, "histories": dbn,
			"panics": sess.Panics, "scenarios": len(scens), "executed": executed, "groups": len(order)})
		os.WriteFile(*summary, b, 0644)
	}
}

var _ = list.New
var _ = set.New
var _ = zset.New
