package main

import (
	"bufio"
	"encoding/json"
	"fmt"
	"math"
	"os"
	"strconv"

	"github.com/xujiajun/nutsdb"
	"verifharness/internal/hx"
)

// codec mode (C21): executes the (template, mutation) pairs emitted by
// Codec.tla.  The record is built and stored by the library's own code, the
// stored bytes are mutated, and the library's reader is asked for it; the
// fields written and the fields read are recorded, CodecTrace compares them.

type ctmpl struct {
	Bs, Ks, Vs, Ss, Es int
	Flag, Status, Ds   int
	Ts, Ttl, Txid      string
	Fid, Rootoff       string
}

type ccall struct {
	Kind string                 `json:"kind"`
	T    map[string]interface{} `json:"t"`
	Mut  struct {
		Type string `json:"type"`
		I    int    `json:"i"`
	} `json:"mut"`
}

func big64(s string) uint64 {
	switch s {
	case "max":
		return math.MaxUint64
	case "1":
		return 1
	}
	return 0
}

func big32(s string) uint32 {
	switch s {
	case "max":
		return math.MaxUint32
	case "1":
		return 1
	}
	return 0
}

func fill(n int, c byte) []byte {
	b := make([]byte, n)
	for i := range b {
		b[i] = c + byte(i%7)
	}
	return b
}

func ti(t map[string]interface{}, k string) int {
	f, _ := t[k].(float64)
	return int(f)
}
func ts(t map[string]interface{}, k string) string { s, _ := t[k].(string); return s }

func u64s(x uint64) string { return strconv.FormatUint(x, 10) }

func mutate(orig []byte, typ string, i int) []byte {
	b := append([]byte(nil), orig...)
	switch typ {
	case "flip":
		b[i/8] ^= 1 << uint(i%8)
	case "trunc":
		for j := i; j < len(b); j++ {
			b[j] = 0
		}
	}
	return b
}

func runCodec(in, out, tmp, summary string) {
	f, err := os.Open(in)
	if err != nil {
		os.Exit(2)
	}
	rec, err := hx.NewRecorder(out)
	if err != nil {
		os.Exit(2)
	}
	os.MkdirAll(tmp, 0755)
	sc := bufio.NewScanner(f)
	sc.Buffer(make([]byte, 1<<20), 1<<26)
	n := 0
	const capacity = 256
	for sc.Scan() {
		var c ccall
		if json.Unmarshal(sc.Bytes(), &c) != nil {
			fmt.Fprintln(os.Stderr, "replay: bad codec call")
			os.Exit(2)
		}
		n++
		switch c.Kind {
		case "entry":
			bucket, key, val := fill(ti(c.T, "bs"), 'b'), fill(ti(c.T, "ks"), 'k'), fill(ti(c.T, "vs"), 'v')
			e := nutsdb.VerifNewEntry(bucket, key, val, big64(ts(c.T, "ts")), big32(ts(c.T, "ttl")),
				uint16(ti(c.T, "flag")), uint16(ti(c.T, "status")), uint16(ti(c.T, "ds")), big64(ts(c.T, "txid")))
			enc := e.Encode()
			at := int64(0)
			if ts(c.T, "pos") == "end" {
				at = capacity - int64(len(enc)) // the record ends exactly on the last byte of the file
			}
			want := hx.Ev{"bucket": hx.K(bucket), "key": hx.K(key), "value": hx.K(val), "ts": u64s(big64(ts(c.T, "ts"))),
				"ttl": u64s(uint64(big32(ts(c.T, "ttl")))), "flag": ti(c.T, "flag"), "status": ti(c.T, "status"), "ds": ti(c.T, "ds"), "txid": u64s(big64(ts(c.T, "txid")))}
			for rw := 0; rw < 2; rw++ {
				path := fmt.Sprintf("%s/c%d.dat", tmp, rw)
				os.Remove(path)
				ev := hx.Ev{"kind": c.Kind, "t": c.T, "mut": hx.Ev{"type": c.Mut.Type, "i": c.Mut.I}, "rw": rw, "panic": false, "want": want, "got": hx.Ev{}, "outcome": "error", "msg": ""}
				func() {
					defer func() {
						if r := recover(); r != nil {
							ev["panic"] = true
							ev["msg"] = fmt.Sprint(r)
						}
					}()
					// store through the library's writer
					df, err := nutsdb.NewDataFile(path, capacity, nutsdb.RWMode(rw))
					if err != nil {
						panic("harness: " + err.Error())
					}
					if _, err := df.WriteAt(enc, at); err != nil {
						panic("harness: " + err.Error())
					}
					nutsdb.VerifDataFileRW(df).Close()
					// alter the stored bytes
					if c.Mut.Type != "none" {
						fd, _ := os.OpenFile(path, os.O_RDWR, 0644)
						fd.WriteAt(mutate(enc, c.Mut.Type, c.Mut.I), at)
						fd.Close()
					}
					df, err = nutsdb.NewDataFile(path, capacity, nutsdb.RWMode(rw))
					if err != nil {
						panic("harness: " + err.Error())
					}
					defer nutsdb.VerifDataFileRW(df).Close()
					g, err := df.ReadAt(int(at))
					switch {
					case err != nil:
						ev["outcome"], ev["msg"] = "error", err.Error()
					case g == nil:
						ev["outcome"] = "absent"
					default:
						b, t, ttl, flag, status, ds, txid := nutsdb.VerifEntryFields(g)
						ev["outcome"] = "record"
						ev["got"] = hx.Ev{"bucket": hx.K(b), "key": hx.K(g.Key), "value": hx.K(g.Value), "ts": u64s(t), "ttl": u64s(uint64(ttl)),
							"flag": int(flag), "status": int(status), "ds": int(ds), "txid": u64s(txid)}
					}
				}()
				rec.Emit(ev)
			}
		case "root":
			start, end := fill(ti(c.T, "ss"), 's'), fill(ti(c.T, "es"), 'e')
			r := nutsdb.VerifNewRootIdx(big64(ts(c.T, "fid")), big64(ts(c.T, "rootoff")), start, end)
			enc := r.Encode()
			want := hx.Ev{"fid": u64s(big64(ts(c.T, "fid"))), "rootoff": u64s(big64(ts(c.T, "rootoff"))), "start": hx.K(start), "end": hx.K(end)}
			path := tmp + "/c.bptridx"
			os.Remove(path)
			ev := hx.Ev{"kind": c.Kind, "t": c.T, "mut": hx.Ev{"type": c.Mut.Type, "i": c.Mut.I}, "rw": 0, "panic": false, "want": want, "got": hx.Ev{}, "outcome": "error", "msg": ""}
			func() {
				defer func() {
					if r := recover(); r != nil {
						ev["panic"] = true
						ev["msg"] = fmt.Sprint(r)
					}
				}()
				if _, err := r.Persistence(path, 0, false); err != nil {
					panic("harness: " + err.Error())
				}
				fd, err := os.OpenFile(path, os.O_RDWR, 0644)
				if err != nil {
					panic("harness: " + err.Error())
				}
				defer fd.Close()
				if c.Mut.Type != "none" {
					fd.WriteAt(mutate(enc, c.Mut.Type, c.Mut.I), 0)
				}
				g, err := nutsdb.ReadBPTreeRootIdxAt(fd, 0)
				switch {
				case err != nil:
					ev["outcome"], ev["msg"] = "error", err.Error()
				case g == nil:
					ev["outcome"] = "absent"
				default:
					fid, ro, s, e := nutsdb.VerifRootIdxFields(g)
					ev["outcome"] = "record"
					ev["got"] = hx.Ev{"fid": u64s(fid), "rootoff": u64s(ro), "start": hx.K(s), "end": hx.K(e)}
				}
			}()
			rec.Emit(ev)
		case "meta":
			start, end := fill(ti(c.T, "ss"), 's'), fill(ti(c.T, "es"), 'e')
			m := nutsdb.VerifNewBucketMeta(start, end)
			enc := m.Encode()
			want := hx.Ev{"start": hx.K(start), "end": hx.K(end)}
			path := tmp + "/c.meta"
			ev := hx.Ev{"kind": c.Kind, "t": c.T, "mut": hx.Ev{"type": c.Mut.Type, "i": c.Mut.I}, "rw": 0, "panic": false, "want": want, "got": hx.Ev{}, "outcome": "error", "msg": ""}
			func() {
				defer func() {
					if r := recover(); r != nil {
						ev["panic"] = true
						ev["msg"] = fmt.Sprint(r)
					}
				}()
				// (the library writes bucket metadata with a plain WriteAt of Encode())
				// the file first holds a record that is `stale` bytes longer, then the
				// record of the template is written over it
				stale := ti(c.T, "stale")
				old := nutsdb.VerifNewBucketMeta(start, append(append([]byte{}, end...), fill(stale, 'o')...)).Encode()
				if stale == 0 || c.Mut.Type == "trunc" {
					old = nil
				}
				if err := os.WriteFile(path, old, 0644); err != nil {
					panic("harness: " + err.Error())
				}
				fd, err := os.OpenFile(path, os.O_RDWR, 0644)
				if err != nil {
					panic("harness: " + err.Error())
				}
				_, err = fd.WriteAt(mutate(enc, c.Mut.Type, c.Mut.I), 0)
				fd.Close()
				if err != nil {
					panic("harness: " + err.Error())
				}
				g, err := nutsdb.ReadBucketMeta(path)
				switch {
				case err != nil:
					ev["outcome"], ev["msg"] = "error", err.Error()
				case g == nil:
					ev["outcome"] = "absent"
				default:
					s, e := nutsdb.VerifBucketMetaFields(g)
					ev["outcome"] = "record"
					ev["got"] = hx.Ev{"start": hx.K(s), "end": hx.K(e)}
				}
			}()
			rec.Emit(ev)
		}
	}
	f.Close()
	rec.Close()
	if summary != "" {
		b, _ := json.Marshal(map[string]interface{}{"events": rec.N, "by_op": rec.Cnt, "histories": 1, "panics": 0, "executed": n})
		os.WriteFile(summary, b, 0644)
	}
}
