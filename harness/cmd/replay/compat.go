package main

import (
	"bufio"
	"crypto/sha1"
	"encoding/hex"
	"encoding/json"
	"fmt"
	"math/rand"
	"os"
	"path/filepath"
	"sort"

	"github.com/xujiajun/nutsdb"
	"verifharness/internal/hx"
)

// compat mode (C22): builds a directory in one index mode and state, opens
// it with another mode, records digests; ModeCompatTrace judges.

type ccase struct {
	Created string `json:"created"`
	State   string `json:"state"`
	Reopen  string `json:"reopen"`
}

func modeByName(s string) nutsdb.EntryIdxMode {
	switch s {
	case "keyonly":
		return nutsdb.HintKeyAndRAMIdxMode
	case "sparse":
		return nutsdb.HintBPTSparseIdxMode
	}
	return nutsdb.HintKeyValAndRAMIdxMode
}

func dirDigest(dir string) string {
	var lines []string
	filepath.Walk(dir, func(p string, info os.FileInfo, err error) error {
		if err != nil {
			return nil
		}
		rel, _ := filepath.Rel(dir, p)
		if info.IsDir() {
			lines = append(lines, "d "+rel)
			return nil
		}
		b, _ := os.ReadFile(p)
		h := sha1.Sum(b)
		lines = append(lines, fmt.Sprintf("f %s %d %s", rel, len(b), hex.EncodeToString(h[:])))
		return nil
	})
	sort.Strings(lines)
	h := sha1.New()
	for _, l := range lines {
		h.Write([]byte(l + "\n"))
	}
	if _, err := os.Stat(dir); err != nil {
		return "absent"
	}
	return hex.EncodeToString(h.Sum(nil)[:8])
}

func obsDigest(o hx.Ev, err error) string {
	if err != nil {
		return "error"
	}
	b, _ := json.Marshal(o)
	h := sha1.Sum(b)
	return hex.EncodeToString(h[:8])
}

var compatU = &hx.Universe{KvBuckets: []string{"b1", "b2"}}

// buildState creates the directory; returns false if the state does not apply.
func buildState(opt nutsdb.Options, state string, r *rand.Rand) {
	dir := opt.Dir
	os.RemoveAll(dir)
	if state == "empty" {
		return
	}
	var obs *hx.FSObs
	if state == "crash-commit" || state == "crash-rotation" {
		obs = hx.NewFSObs(dir)
		defer obs.Uninstall()
	}
	db, err := nutsdb.Open(opt)
	if err != nil {
		fmt.Fprintln(os.Stderr, "replay: open failed:", err)
		os.Exit(2)
	}
	if state != "fresh" {
		keys := []string{"a", "ab", "b", "k1", "k2", "k3"}
		for i := 0; i < 14; i++ {
			db.Update(func(tx *nutsdb.Tx) error {
				n := 1 + r.Intn(3)
				for j := 0; j < n; j++ {
					b := []string{"b1", "b2"}[r.Intn(2)]
					k := []byte(keys[r.Intn(len(keys))])
					if r.Intn(5) == 0 {
						tx.Delete(b, k)
					} else {
						tx.Put(b, k, []byte(fmt.Sprintf("v%d-%d-xxxxxxxxxxxxxxxx", i, j)), 0)
					}
				}
				return nil
			})
		}
		if state == "merged" {
			db.Merge() // refused in sparse mode: the directory is then simply "written"
		}
	}
	db.Close()
	if obs != nil {
		// choose a crash point: inside the last multi-write burst (crash-commit)
		// or right after the creation of a new data file (crash-rotation)
		k := -1
		for i := len(obs.Muts) - 1; i > 0; i-- {
			m := obs.Muts[i]
			if state == "crash-rotation" && m.Op == "truncate" && filepath.Ext(m.Path) == ".dat" && m.Path != "0.dat" {
				k = i + 1
				break
			}
			if state == "crash-commit" && m.Op == "write" && filepath.Ext(m.Path) == ".dat" && obs.Muts[i-1].Op == "write" {
				k = i // the earlier write of the burst is in, this one is not
				break
			}
		}
		if k < 0 {
			k = len(obs.Muts) * 2 / 3
		}
		files := obs.BuildImage(hx.ImgSpec{K: k, Torn: -1})
		mk := []string{}
		if opt.EntryIdxMode == nutsdb.HintBPTSparseIdxMode {
			mk = []string{"bpt/root", "bpt/txid", "meta/bucket"}
		}
		obs.Uninstall()
		hx.WriteImage(files, dir, mk)
	}
}

func runCompat(in, out, tmp, summary string, seed int64) {
	f, err := os.Open(in)
	if err != nil {
		os.Exit(2)
	}
	var cases []ccase
	sc := bufio.NewScanner(f)
	for sc.Scan() {
		var c ccase
		if json.Unmarshal(sc.Bytes(), &c) != nil {
			os.Exit(2)
		}
		cases = append(cases, c)
	}
	f.Close()
	rec, err := hx.NewRecorder(out)
	if err != nil {
		os.Exit(2)
	}
	for ci, c := range cases {
		for rw := 0; rw < 2; rw++ {
			opt := nutsdb.DefaultOptions
			opt.Dir = fmt.Sprintf("%s/cp-%d-%d", tmp, ci, rw)
			opt.SegmentSize = 256
			opt.RWMode = nutsdb.RWMode(rw)
			opt.EntryIdxMode = modeByName(c.Created)
			buildState(opt, c.State, rand.New(rand.NewSource(seed*1000+int64(ci))))
			ev := hx.Ev{"op": "compat", "created": c.Created, "state": c.State, "reopen": c.Reopen, "rw": rw, "panic": false, "msg": ""}
			// contents under the creating mode, on a copy
			cp := opt.Dir + "-copy"
			os.RemoveAll(cp)
			if _, e := os.Stat(opt.Dir); e == nil {
				hx.CopyDir(opt.Dir, cp)
			}
			o1, e1 := hx.ObserveCopy(opt, cp, compatU)
			os.RemoveAll(cp)
			ev["baseerr"] = e1 != nil
			ev["o1"] = obsDigest(o1, e1)
			ev["h1"] = dirDigest(opt.Dir)
			ropt := opt
			ropt.EntryIdxMode = modeByName(c.Reopen)
			func() {
				defer func() {
					if r := recover(); r != nil {
						ev["panic"] = true
						ev["msg"] = fmt.Sprint(r)
					}
				}()
				db, e := nutsdb.Open(ropt)
				ev["err"] = e != nil
				ev["o2"] = "error"
				if e != nil {
					ev["msg"] = e.Error()
					return
				}
				o2, e2 := hx.ObserveDB(db, compatU)
				ev["o2"] = obsDigest(o2, e2)
				db.Close()
			}()
			if _, ok := ev["err"]; !ok {
				ev["err"] = true
				ev["o2"] = "error"
			}
			ev["h2"] = dirDigest(opt.Dir)
			rec.Emit(ev)
			os.RemoveAll(opt.Dir)
		}
	}
	rec.Close()
	if summary != "" {
		b, _ := json.Marshal(map[string]interface{}{"events": rec.N, "by_op": rec.Cnt, "histories": 1, "panics": 0, "executed": len(cases) * 2})
		os.WriteFile(summary, b, 0644)
	}
}
