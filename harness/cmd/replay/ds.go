package main

import (
	"fmt"
	"math/rand"
	"sort"

	"github.com/xujiajun/nutsdb/ds/list"
	"github.com/xujiajun/nutsdb/ds/set"
	"github.com/xujiajun/nutsdb/ds/zset"
	"verifharness/internal/hx"
)

// Direct replay on the exported data-structure types.  Each call is recorded
// as a single-operation transaction (begin / call / commit are written around
// it) so that NutsTrace.tla validates it with the same actions.

type dsRec struct {
	rec    *hx.Recorder
	n      int
	panics int
}

func (d *dsRec) call(w bool, e hx.Ev, f func()) {
	d.n++
	d.rec.Emit(hx.Ev{"op": "begin", "w": w, "id": fmt.Sprintf("d%d", d.n), "err": false})
	func() {
		defer func() {
			if r := recover(); r != nil {
				d.panics++
				e["panic"] = fmt.Sprint(r)
				e["err"] = true
			}
			d.rec.Emit(e)
		}()
		f()
	}()
	if w {
		d.rec.Emit(hx.Ev{"op": "commit", "err": false})
	} else {
		d.rec.Emit(hx.Ev{"op": "rollback", "err": false})
	}
}

func nodeEv(n *zset.SortedSetNode) hx.Ev {
	if n == nil {
		return hx.Ev{"k": []int{}, "s": 0, "v": ""}
	}
	return hx.Ev{"k": hx.Ks(n.Key()), "s": hx.ScoreInt(float64(n.Score())), "v": string(n.Value)}
}

func nodesEv(ns []*zset.SortedSetNode) []hx.Ev {
	out := make([]hx.Ev, 0, len(ns))
	for _, n := range ns {
		out = append(out, nodeEv(n))
	}
	return out
}

func sorted(l [][]byte) []string {
	s := hx.Strs(l)
	sort.Strings(s)
	return s
}

func (d *dsRec) listCall(l *list.List, c call, b string) {
	k := c.ks()
	e := hx.Ev{"op": c.Op, "b": b, "k": k, "t0": 0, "t1": 0}
	w := mutating[c.Op]
	d.call(w, e, func() {
		switch c.Op {
		case "rpush":
			e["vals"] = c.Vals
			_, err := l.RPush(k, bs(c.Vals)...)
			e["err"] = err != nil
		case "lpush":
			e["vals"] = c.Vals
			_, err := l.LPush(k, bs(c.Vals)...)
			e["err"] = err != nil
		case "lpop", "rpop", "lpeek", "rpeek":
			var it []byte
			var err error
			switch c.Op {
			case "lpop":
				it, err = l.LPop(k)
			case "rpop":
				it, err = l.RPop(k)
			case "lpeek":
				it, err = l.LPeek(k)
			default:
				it, _, err = l.RPeek(k)
			}
			e["err"], e["res"] = err != nil, ""
			if err == nil {
				e["res"] = string(it)
			}
		case "lsize":
			n, err := l.Size(k)
			e["err"], e["n"] = err != nil, n
		case "lrange":
			e["s"], e["e"], e["res"] = c.S, c.E, []string{}
			r, err := l.LRange(k, c.S, c.E)
			e["err"] = err != nil
			if err == nil {
				e["res"] = hx.Strs(r)
			}
		case "ltrim":
			e["s"], e["e"] = c.S, c.E
			e["err"] = l.Ltrim(k, c.S, c.E) != nil
		case "lrem":
			e["cnt"], e["v"] = c.Cnt, c.V
			n, err := l.LRem(k, c.Cnt, []byte(c.V))
			e["err"], e["n"] = err != nil, n
		case "lset":
			e["i"], e["v"] = c.I, c.V
			e["err"] = l.LSet(k, c.I, []byte(c.V)) != nil
		}
	})
}

func (d *dsRec) setCall(s *set.Set, c call, b string) {
	k := c.ks()
	e := hx.Ev{"op": c.Op, "b": b, "k": k, "t0": 0, "t1": 0}
	d.call(mutating[c.Op], e, func() {
		switch c.Op {
		case "sadd":
			e["vals"] = c.Vals
			e["err"] = s.SAdd(k, bs(c.Vals)...) != nil
		case "srem":
			e["vals"] = c.Vals
			e["err"] = s.SRem(k, bs(c.Vals)...) != nil
		case "spop":
			it := s.SPop(k)
			e["err"], e["res"] = it == nil, string(it)
		case "smove":
			e["b2"], e["k2"], e["v"], e["two"] = b, c.K2, c.V, false
			ok, err := s.SMove(k, c.K2, []byte(c.V))
			e["ok"], e["err"] = ok, err != nil
		case "sismember":
			e["v"] = c.V
			e["ok"], e["err"] = s.SIsMember(k, []byte(c.V)), false
		case "saremembers":
			e["vals"] = c.Vals
			ok, err := s.SAreMembers(k, bs(c.Vals)...)
			e["ok"], e["err"] = ok, err != nil
		case "smembers":
			e["res"] = []string{}
			l, err := s.SMembers(k)
			e["err"] = err != nil
			if err == nil {
				e["res"] = sorted(l)
			}
		case "scard":
			e["n"], e["err"] = s.SCard(k), false
		case "shaskey":
			e["ok"], e["err"] = s.SHasKey(k), false
		case "sdiff", "sunion":
			e["b2"], e["k2"], e["two"], e["res"] = b, c.K2, false, []string{}
			var l [][]byte
			var err error
			if c.Op == "sdiff" {
				l, err = s.SDiff(k, c.K2)
			} else {
				l, err = s.SUnion(k, c.K2)
			}
			e["err"] = err != nil
			if err == nil {
				e["res"] = sorted(l)
			}
		}
	})
}

func (d *dsRec) zCall(z *zset.SortedSet, c call, b string) {
	e := hx.Ev{"op": c.Op, "b": b, "t0": 0, "t1": 0}
	d.call(mutating[c.Op], e, func() {
		switch c.Op {
		case "zadd":
			e["k"], e["s"], e["v"] = hx.K(c.kb()), c.S, c.V
			e["err"] = z.Put(string(c.kb()), zset.SCORE(c.S), []byte(c.V)) != nil
		case "zrem":
			e["k"] = hx.K(c.kb())
			z.Remove(string(c.kb()))
			e["err"] = false
		case "zremrank":
			e["s"], e["e"] = c.S, c.E
			z.GetByRankRange(c.S, c.E, true)
			e["err"] = false
		case "zpopmax", "zpopmin", "zpeekmax", "zpeekmin":
			var n *zset.SortedSetNode
			switch c.Op {
			case "zpopmax":
				n = z.PopMax()
			case "zpopmin":
				n = z.PopMin()
			case "zpeekmax":
				n = z.PeekMax()
			default:
				n = z.PeekMin()
			}
			e["err"], e["nil"], e["node"] = false, n == nil, nodeEv(n)
		case "zcard":
			e["n"], e["err"] = z.Size(), false
		case "zmembers":
			ks := make([]string, 0, len(z.Dict))
			for k := range z.Dict {
				ks = append(ks, k)
			}
			sort.Strings(ks)
			out := make([]hx.Ev, 0, len(ks))
			for _, k := range ks {
				out = append(out, nodeEv(z.Dict[k]))
			}
			e["res"], e["err"] = out, false
		case "zrangebyrank":
			e["s"], e["e"] = c.S, c.E
			e["res"], e["err"] = nodesEv(z.GetByRankRange(c.S, c.E, false)), false
		case "zrangebyscore", "zcount":
			e["s"], e["e"], e["exs"], e["exe"], e["lim"] = c.S, c.E, c.Exs, c.Exe, c.Lim
			ns := z.GetByScoreRange(zset.SCORE(c.S), zset.SCORE(c.E), &zset.GetByScoreRangeOptions{Limit: c.Lim, ExcludeStart: c.Exs, ExcludeEnd: c.Exe})
			if c.Op == "zcount" {
				e["n"] = len(ns)
			} else {
				e["res"] = nodesEv(ns)
			}
			e["err"] = false
		case "zrank":
			e["k"] = hx.K(c.kb())
			e["n"], e["err"] = z.FindRank(string(c.kb())), false
		case "zrevrank":
			e["k"] = hx.K(c.kb())
			e["n"], e["err"] = z.FindRevRank(string(c.kb())), false
		case "zscore":
			e["k"] = hx.K(c.kb())
			n := z.GetByKey(string(c.kb()))
			e["err"], e["s"] = n == nil, 0
			if n != nil {
				e["s"] = hx.ScoreInt(float64(n.Score()))
			}
		case "zgetbykey":
			e["k"] = hx.K(c.kb())
			n := z.GetByKey(string(c.kb()))
			e["err"], e["nil"], e["node"] = n == nil, n == nil, nodeEv(n)
		}
	})
}

func replayDS(rec *hx.Recorder, order []string, groups map[string][]scen, seed int64, layouts int) int {
	d := &dsRec{rec: rec}
	executed := 0
	nb := 0
	for gi, gk := range order {
		g := groups[gk]
		if gi%1 == 0 {
			rec.Emit(hx.Ev{"op": "reset", "family": "replay-ds"})
		}
		kind := g[0].Kind
		for lay := 0; lay < layouts; lay++ {
			if kind != "zset" && lay > 0 {
				break
			}
			rand.Seed(seed*1000 + int64(lay))
			// a fresh structure per mutating call; one shared structure for all reads
			mk := func(b string) (l *list.List, s *set.Set, z *zset.SortedSet) {
				switch kind {
				case "list":
					l = list.New()
					if len(g[0].Pre.List) > 0 {
						d.listCall(l, call{Op: "rpush", K: []byte(`"k"`), Vals: g[0].Pre.List}, b)
					}
				case "set":
					s = set.New()
					ks := make([]string, 0)
					for k := range g[0].Pre.Sets {
						ks = append(ks, k)
					}
					sort.Strings(ks)
					for _, k := range ks {
						if len(g[0].Pre.Sets[k]) > 0 {
							d.setCall(s, call{Op: "sadd", K: []byte(`"` + k + `"`), Vals: g[0].Pre.Sets[k]}, b)
						}
					}
				case "zset":
					z = zset.New()
					for _, i := range rand.Perm(len(g[0].Pre.Z)) {
						n := g[0].Pre.Z[i]
						kk := "["
						for j, x := range n.K {
							if j > 0 {
								kk += ","
							}
							kk += fmt.Sprint(x)
						}
						kk += "]"
						d.zCall(z, call{Op: "zadd", K: []byte(kk), S: n.S, V: n.V}, b)
					}
				}
				return
			}
			do := func(l *list.List, s *set.Set, z *zset.SortedSet, c call, b string) {
				switch kind {
				case "list":
					d.listCall(l, c, b)
				case "set":
					if c.Two {
						return // the two-bucket forms exist on Tx only
					}
					d.setCall(s, c, b)
				case "zset":
					d.zCall(z, c, b)
				}
				executed++
			}
			nb++
			b := fmt.Sprintf("d%d", nb)
			l, s, z := mk(b)
			for _, sc := range g {
				if !mutating[sc.Call.Op] {
					do(l, s, z, sc.Call, b)
				}
			}
			for _, sc := range g {
				if !mutating[sc.Call.Op] {
					continue
				}
				nb++
				b := fmt.Sprintf("d%d", nb)
				l, s, z := mk(b)
				do(l, s, z, sc.Call, b)
				// read back
				switch kind {
				case "list":
					d.listCall(l, call{Op: "lrange", K: []byte(`"k"`), S: 0, E: -1}, b)
				case "set":
					d.setCall(s, call{Op: "smembers", K: []byte(`"k1"`)}, b)
					d.setCall(s, call{Op: "smembers", K: []byte(`"k2"`)}, b)
				case "zset":
					d.zCall(z, call{Op: "zrangebyrank", S: 1, E: -1}, b)
					d.zCall(z, call{Op: "zmembers"}, b)
				}
			}
		}
	}
	return executed
}
