-------------------------------- MODULE Sparse -------------------------------
(***************************************************************************)
(* Lookup procedures of HintBPTSparseIdxMode (C02, C03).  In this mode the *)
(* RAM holds the B+ tree of the active segment only; a rotation seals the   *)
(* segment: its tree is written to disk and a root-index record keeps the   *)
(* file id and the smallest and largest key of the segment.  A read looks   *)
(* at the active tree first and then at the sealed segments from the       *)
(* newest to the oldest, skipping every segment whose key range cannot     *)
(* contain what is asked for; scans collect from every segment whose range *)
(* overlaps the request, the newest record of a key wins, tombstones hide  *)
(* older values, and offset / limit apply to the merged result.            *)
(*                                                                         *)
(* Keys are 1..NKeys (their order is the byte order of the real keys); a   *)
(* segment is a function from the keys written while it was active to the  *)
(* last record of each (a value, or Tomb).  The abstract contents `model`  *)
(* is what an ordered map would hold.  The invariants say that the         *)
(* procedures return what the ordered map returns.                         *)
(*                                                                         *)
(* Switches (constant Sw): behaviours the code had (repaired defects) or   *)
(* that were seeded; each must make TLC produce a counterexample:          *)
(*   "TombSkips"     a tombstone found in a segment is treated like "key   *)
(*                   not in this segment" (seeded change C02)              *)
(*   "Contained"     a scan reads a sealed segment only if its range lies  *)
(*                   inside the request (pre 0928e3e)                      *)
(*   "ActiveOnly"    an unbounded scan reads the active segment only (pre  *)
(*                   67cdb43)                                              *)
(*   "PerSegPaging"  offset and limit are applied to every segment's       *)
(*                   matches before merging (pre 333f38a)                  *)
(*   "EndTruncated"  after Reopen the recorded largest key of a sealed     *)
(*                   segment is cut down to its smallest (seeded C02d)     *)
(***************************************************************************)
EXTENDS Naturals, Sequences, FiniteSets

CONSTANTS NKeys, MaxWrites, MaxSegs, Sw

Keys == 1..NKeys
Tomb == 0
NoVal == [found |-> FALSE, v |-> 0]

VARIABLES
  act,     \* active segment: key -> last record written while it was active
  segs,    \* sealed segments, oldest first: [m: key -> record, lo, hi]
  model,   \* the ordered map: key -> value
  ver,     \* next fresh value
  nw       \* writes so far
vars == <<act, segs, model, ver, nw>>

Min(S) == CHOOSE x \in S : \A y \in S : x <= y
Max(S) == CHOOSE x \in S : \A y \in S : y <= x
Empty == [k \in {} |-> 0]
Upd(f, k, v) == [x \in DOMAIN f \cup {k} |-> IF x = k THEN v ELSE f[x]]

Init == act = Empty /\ segs = <<>> /\ model = Empty /\ ver = 1 /\ nw = 0

Put(k) ==
  /\ nw < MaxWrites
  /\ act' = Upd(act, k, ver) /\ model' = Upd(model, k, ver)
  /\ ver' = ver + 1 /\ nw' = nw + 1 /\ UNCHANGED segs
Delete(k) ==
  /\ nw < MaxWrites
  /\ act' = Upd(act, k, Tomb) /\ model' = [x \in DOMAIN model \ {k} |-> model[x]]
  /\ ver' = ver + 1 /\ nw' = nw + 1 /\ UNCHANGED segs
\* rotation: the active segment is sealed with its key range
Seal ==
  /\ DOMAIN act # {} /\ Len(segs) < MaxSegs
  /\ segs' = Append(segs, [m |-> act, lo |-> Min(DOMAIN act), hi |-> Max(DOMAIN act)])
  /\ act' = Empty /\ UNCHANGED <<model, ver, nw>>
\* Close + Open: the ranges are read back from the root-index records
Reopen ==
  /\ segs' = [i \in 1..Len(segs) |-> IF "EndTruncated" \in Sw THEN [segs[i] EXCEPT !.hi = segs[i].lo] ELSE segs[i]]
  /\ UNCHANGED <<act, model, ver, nw>>

Next == (\E k \in Keys : Put(k) \/ Delete(k)) \/ Seal \/ Reopen
Spec == Init /\ [][Next]_vars

-----------------------------------------------------------------------------
(* Get *)

\* the answer of segment i for key k: "none" (look further), a tombstone, or a value
InSeg(i, k) == segs[i].lo <= k /\ k <= segs[i].hi /\ k \in DOMAIN segs[i].m
\* sealed segments from the newest (Len) down to 1
RECURSIVE GetSealed(_, _)
GetSealed(i, k) ==
  IF i = 0 THEN NoVal
  ELSE IF InSeg(i, k)
       THEN IF segs[i].m[k] = Tomb
            THEN (IF "TombSkips" \in Sw THEN GetSealed(i - 1, k) ELSE NoVal)
            ELSE [found |-> TRUE, v |-> segs[i].m[k]]
       ELSE GetSealed(i - 1, k)
Get(k) ==
  IF k \in DOMAIN act
  THEN IF act[k] = Tomb THEN (IF "TombSkips" \in Sw THEN GetSealed(Len(segs), k) ELSE NoVal)
       ELSE [found |-> TRUE, v |-> act[k]]
  ELSE GetSealed(Len(segs), k)

ModelGet(k) == IF k \in DOMAIN model THEN [found |-> TRUE, v |-> model[k]] ELSE NoVal
GetOK == \A k \in Keys : Get(k) = ModelGet(k)

-----------------------------------------------------------------------------
(* scans over [a, b] with offset and limit *)

Overlaps(i, a, b) == IF "Contained" \in Sw THEN a <= segs[i].lo /\ segs[i].hi <= b
                     ELSE segs[i].lo <= b /\ a <= segs[i].hi
\* the sources a scan reads, newest first: 0 is the active segment
Sources(a, b, bounded) ==
  LET sealed == {i \in 1..Len(segs) : Overlaps(i, a, b)} IN
  IF ~bounded /\ "ActiveOnly" \in Sw THEN {} ELSE sealed
RecIn(i, k) == IF i = 0 THEN act[k] ELSE segs[i].m[k]
HasIn(i, k) == IF i = 0 THEN k \in DOMAIN act ELSE k \in DOMAIN segs[i].m
\* the newest source that has a record of k decides
Newest(S, k) == LET T == {i \in S \cup {0} : HasIn(i, k)} IN
                IF 0 \in T \/ T = {} THEN 0 ELSE Max(T)
LiveKeys(a, b, bounded) ==
  LET S == Sources(a, b, bounded) IN
  {k \in a..b : (\E i \in S \cup {0} : HasIn(i, k)) /\ RecIn(Newest(S, k), k) # Tomb}
\* ascending sequence of a set of keys
RECURSIVE Asc(_)
Asc(S) == IF S = {} THEN <<>> ELSE <<Min(S)>> \o Asc(S \ {Min(S)})
Page(s, off, lim) == SubSeq(s, off + 1, IF off + lim < Len(s) THEN off + lim ELSE Len(s))

\* what the code returns
Scan(a, b, off, lim, bounded) ==
  IF "PerSegPaging" \in Sw
  THEN \* every source is paged on its own matches; the pages are merged and cut to lim
       LET S == Sources(a, b, bounded) \cup {0}
           Own(i) == {k \in a..b : HasIn(i, k) /\ Newest(S \ {0}, k) = i /\ RecIn(i, k) # Tomb}
           Got == UNION {{Page(Asc(Own(i)), off, lim)[j] : j \in 1..Len(Page(Asc(Own(i)), off, lim))} : i \in S}
       IN Page(Asc(Got), 0, lim)
  ELSE Page(Asc(LiveKeys(a, b, bounded)), off, lim)
ModelScan(a, b, off, lim) == Page(Asc({k \in a..b : k \in DOMAIN model}), off, lim)

\* bounded scans (RangeScan, PrefixScan with a range) and unbounded ones (GetAll, ScanNoLimit)
ScanOK == \A a \in Keys : \A b \in a..NKeys : \A off \in 0..2 : \A lim \in 1..NKeys :
            Scan(a, b, off, lim, TRUE) = ModelScan(a, b, off, lim)
AllOK == Scan(1, NKeys, 0, NKeys, FALSE) = ModelScan(1, NKeys, 0, NKeys)
\* returned values, not only keys
ValuesOK == \A k \in LiveKeys(1, NKeys, TRUE) : Get(k) = ModelGet(k)

TypeOK == DOMAIN act \subseteq Keys /\ DOMAIN model \subseteq Keys /\ Len(segs) <= MaxSegs
=============================================================================
