----------------------------- MODULE ModeCompat -----------------------------
(***************************************************************************)
(* C22: opening a directory with an incompatible index mode is refused and *)
(* leaves the directory unchanged; switching between the two RAM index     *)
(* modes on key/value data succeeds and shows the same contents.           *)
(*                                                                         *)
(* Enumerator + acceptance rule.  TLC emits every combination              *)
(*   (mode that created the directory, state of the directory, reopen mode)*)
(* and the Go replayer builds the directory, opens it with the reopen mode *)
(* and records: the error flag, a digest of the directory tree before and  *)
(* after, and a digest of the full observation under the creating mode and *)
(* under the reopen mode.  Equality of digests is judged here.             *)
(***************************************************************************)
EXTENDS Naturals, Sequences, TLC, Json

Modes  == {"keyval", "keyonly", "sparse"}
RAM    == {"keyval", "keyonly"}
States == {"empty", "fresh", "written", "merged", "crash-commit", "crash-rotation"}
HasData(st) == st \in {"written", "merged", "crash-commit", "crash-rotation"}
Class(m) == IF m \in RAM THEN "ram" ELSE "sparse"

VARIABLE out
Init == out = <<>>
Next == \E c \in Modes, st \in States, r \in Modes :
          /\ out' = [created |-> c, state |-> st, reopen |-> r]
          /\ PrintT(<<"GEN", ToJson(out')>>)
Spec == Init /\ [][Next]_out
View == 0

\* e: a recorded outcome
\*   err      reopen failed              h1, h2   directory digest before / after the reopen attempt
\*   o1, o2   observation digest under the creating mode (on a copy) / under the reopen mode
\*   baseerr  the creating mode itself cannot open the directory (judged by C09/C10, not here)
Admitted(e) ==
  IF HasData(e.state) /\ Class(e.created) # Class(e.reopen)
  THEN e.err /\ e.h1 = e.h2                                   \* refused, directory unchanged
  ELSE IF HasData(e.state) /\ e.created \in RAM /\ e.reopen \in RAM /\ ~e.baseerr
  THEN ~e.err /\ e.o1 = e.o2                                  \* RAM <-> RAM: same contents
  ELSE IF e.created = e.reopen /\ ~e.baseerr
  THEN ~e.err /\ e.o1 = e.o2                                  \* same mode: a plain reopen
  ELSE TRUE                                                   \* no data yet: the statement is silent
=============================================================================
