------------------------------ MODULE CodecTrace -----------------------------
EXTENDS Codec, Integers
CONSTANTS TraceFile, DiagLine, Dev
TLog == ndJsonDeserialize(TraceFile)
VARIABLE l
Ev == TLog[l]
TInit == out = <<>> /\ l = 1 /\ TLCSet(1, 1)
TNext ==
  /\ l <= Len(TLog)
  /\ Ev.kind \in Kinds /\ ~Ev.panic
  /\ Admitted(Ev)
  /\ l' = l + 1 /\ UNCHANGED out
TraceSpec == TInit /\ [][TNext]_<<out, l>>
HighWater == TLCSet(1, IF TLCGet(1) < l THEN l ELSE TLCGet(1)) /\
             ((l = Len(TLog) + 1) => PrintT(<<"TRACE_NOTES", {}>>))
TraceAccepted ==
  /\ PrintT(<<"TRACE_REACHED", TLCGet(1) - 1, "OF", Len(TLog)>>)
  /\ TLCGet(1) - 1 = Len(TLog)
=============================================================================
