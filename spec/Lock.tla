-------------------------------- MODULE Lock --------------------------------
(***************************************************************************)
(* Concurrency grain of NutsDB: goroutines running View / Update / Backup  *)
(* transactions and Merge on one or several databases of one process.      *)
(*                                                                         *)
(* Every database has one sync.RWMutex (writer preference, as in Go): a    *)
(* transaction takes it in Tx.lock (Begin) and releases it in Commit or    *)
(* Rollback.  One action per lock transition and per critical-section      *)
(* step; every step carries the set of shared objects it touches, which    *)
(* feeds an Eraser-style lockset monitor.  The data is abstracted to one   *)
(* version counter per database (the number of committed writers) and one  *)
(* key whose value names the writer that wrote it last.                    *)
(*                                                                         *)
(* Code-shaped deviations are switches (constant Sw):                      *)
(*   "GlobalQueue"    a rotating writer uses the package-level `queue`     *)
(*                    of bptree.go (sparse mode)               - D14       *)
(*   "SortShared"     readers sort the shared root-index slice in place    *)
(*                    under the read lock (sparse mode)         - D14      *)
(*   "MergeUnlocked"  Merge reads the indexes and sets isMerging without   *)
(*                    the lock; only its rewrite takes it        - D14/C17 *)
(* With Sw = {} every property below holds; each switch makes TLC produce  *)
(* the corresponding counterexample.                                       *)
(***************************************************************************)
EXTENDS LockCore

CONSTANTS
  G,          \* goroutines that run transactions
  Kind,       \* G -> "w" | "r" | "b"   (writer, reader, backup)
  Target,     \* G -> DB
  MaxTx,      \* transactions per goroutine
  Mergers,    \* goroutines that run one Merge each
  MTarget,    \* Mergers -> DB
  Sw          \* enabled deviation switches

Procs == G \cup Mergers
MDb(p) == MTarget[p]
InitVal == [w |-> "init", n |-> 0]
NoVal == [w |-> "none", n |-> 0]

VARIABLES
  pc,        \* p -> control state
  ntx,       \* g -> transactions finished
  ver,       \* d -> number of committed writers
  val,       \* d -> name of the last writer of the key (or "init")
  snap,      \* g -> what the running read transaction saw first: [ver, val] or None
  scanned    \* merger -> value read by Scan, to be rewritten

vars == <<mu, pc, ntx, ver, val, snap, scanned, cand, users>>

-----------------------------------------------------------------------------
(* shared objects *)

Objects == {<<"idx", d>> : d \in DB} \cup {<<"rootidx", d>> : d \in DB} \cup {<<"isMerging", d>> : d \in DB} \cup {<<"queue", "global">>}

-----------------------------------------------------------------------------
Init ==
  /\ mu = [d \in DB |-> [w |-> None, r |-> {}, pend |-> {}]]
  /\ pc = [p \in Procs |-> IF p \in G THEN "idle" ELSE "m-start"]
  /\ ntx = [g \in G |-> 0]
  /\ ver = [d \in DB |-> 0]
  /\ val = [d \in DB |-> InitVal]
  /\ snap = [g \in G |-> [ver |-> 0, val |-> NoVal]]
  /\ scanned = [p \in Mergers |-> NoVal]
  /\ cand = [o \in Objects |-> [top |-> TRUE, s |-> {}]]
  /\ users = [o \in Objects |-> {}]

\* Tx.lock ------------------------------------------------------------------
Want(g) ==
  /\ pc[g] = "idle" /\ ntx[g] < MaxTx
  /\ pc' = [pc EXCEPT ![g] = "want"]
  /\ IF Kind[g] = "w"
     THEN mu' = [mu EXCEPT ![Target[g]].pend = @ \cup {g}]
     ELSE UNCHANGED mu
  /\ UNCHANGED <<ntx, ver, val, snap, scanned>> /\ NoAccess

Acquire(g) ==
  /\ pc[g] = "want"
  /\ IF Kind[g] = "w" THEN AcquireW(g, Target[g]) ELSE AcquireR(g, Target[g])
  /\ pc' = [pc EXCEPT ![g] = "in1"]
  /\ UNCHANGED <<ntx, ver, val, snap, scanned>> /\ NoAccess

\* first step inside the transaction
Step1(g) ==
  LET d == Target[g] IN
  /\ pc[g] = "in1"
  /\ IF Kind[g] = "w"
     THEN \* buffer writes; (sparse mode) a rotation persists the active tree through the global queue
          /\ Access(g, IF "GlobalQueue" \in Sw THEN {<<<<"queue", "global">>, TRUE>>} ELSE {})
          /\ UNCHANGED snap
     ELSE \* first read of the snapshot (a Backup copies the first half of the files)
          /\ snap' = [snap EXCEPT ![g] = [ver |-> ver[d], val |-> val[d]]]
          /\ Access(g, {<<<<"idx", d>>, FALSE>>} \cup
                       (IF "SortShared" \in Sw THEN {<<<<"rootidx", d>>, TRUE>>} ELSE {<<<<"rootidx", d>>, FALSE>>}))
  /\ pc' = [pc EXCEPT ![g] = "in2"]
  /\ UNCHANGED <<mu, ntx, ver, val, scanned>>

\* second step: commit (writer) or second read (reader / rest of the copy)
Step2(g) ==
  LET d == Target[g] IN
  /\ pc[g] = "in2"
  /\ IF Kind[g] = "w"
     THEN /\ ver' = [ver EXCEPT ![d] = @ + 1]
          /\ val' = [val EXCEPT ![d] = [w |-> g, n |-> ntx[g]]]
          /\ Access(g, {<<<<"idx", d>>, TRUE>>, <<<<"rootidx", d>>, TRUE>>, <<<<"isMerging", d>>, FALSE>>})
     ELSE /\ UNCHANGED <<ver, val>>
          /\ Access(g, {<<<<"idx", d>>, FALSE>>})
  /\ pc' = [pc EXCEPT ![g] = "rel"]
  /\ UNCHANGED <<mu, ntx, snap, scanned>>

Release(g) ==
  LET d == Target[g] IN
  /\ pc[g] = "rel"
  /\ mu' = IF Kind[g] = "w" THEN [mu EXCEPT ![d].w = None] ELSE [mu EXCEPT ![d].r = @ \ {g}]
  /\ pc' = [pc EXCEPT ![g] = "idle"]
  /\ ntx' = [ntx EXCEPT ![g] = @ + 1]
  /\ snap' = [snap EXCEPT ![g] = [ver |-> 0, val |-> NoVal]]
  /\ UNCHANGED <<ver, val, scanned>> /\ NoAccess

\* DB.Merge -----------------------------------------------------------------
\* ideal: the whole merge is one write transaction.  code-shaped
\* (MergeUnlocked): isMerging and the scan without any lock, only the rewrite
\* under the write lock.
MStart(p) ==
  LET d == MDb(p) IN
  /\ pc[p] = "m-start"
  /\ IF "MergeUnlocked" \in Sw
     THEN /\ Access(p, {<<<<"isMerging", d>>, TRUE>>}) /\ UNCHANGED mu /\ pc' = [pc EXCEPT ![p] = "m-scan"]
     ELSE /\ AcquireW(p, d) /\ NoAccess /\ pc' = [pc EXCEPT ![p] = "m-scan"]
  /\ UNCHANGED <<ntx, ver, val, snap, scanned>>

MScan(p) ==
  LET d == MDb(p) IN
  /\ pc[p] = "m-scan"
  /\ scanned' = [scanned EXCEPT ![p] = val[d]]
  /\ Access(p, {<<<<"idx", d>>, FALSE>>})
  /\ pc' = [pc EXCEPT ![p] = IF "MergeUnlocked" \in Sw THEN "m-lock" ELSE "m-rewrite"]
  /\ UNCHANGED <<mu, ntx, ver, val, snap>>

MLock(p) ==
  /\ pc[p] = "m-lock"
  /\ AcquireW(p, MDb(p))
  /\ pc' = [pc EXCEPT ![p] = "m-rewrite"]
  /\ UNCHANGED <<ntx, ver, val, snap, scanned>> /\ NoAccess

\* the rewrite appends the scanned record as the newest record of its key
MRewrite(p) ==
  LET d == MDb(p) IN
  /\ pc[p] = "m-rewrite"
  /\ val' = [val EXCEPT ![d] = scanned[p]]
  /\ Access(p, {<<<<"idx", d>>, TRUE>>})
  /\ pc' = [pc EXCEPT ![p] = "m-unlock"]
  /\ UNCHANGED <<mu, ntx, ver, snap, scanned>>

MUnlock(p) ==
  /\ pc[p] = "m-unlock"
  /\ mu' = [mu EXCEPT ![MDb(p)].w = None]
  /\ pc' = [pc EXCEPT ![p] = "m-done"]
  /\ UNCHANGED <<ntx, ver, val, snap, scanned>> /\ NoAccess

Done == \A p \in Procs : IF p \in G THEN pc[p] = "idle" /\ ntx[p] = MaxTx ELSE pc[p] = "m-done"
Terminated == Done /\ UNCHANGED vars

Next ==
  \/ \E g \in G : Want(g) \/ Acquire(g) \/ Step1(g) \/ Step2(g) \/ Release(g)
  \/ \E p \in Mergers : MStart(p) \/ MScan(p) \/ MLock(p) \/ MRewrite(p) \/ MUnlock(p)
  \/ Terminated

Spec == Init /\ [][Next]_vars /\ WF_vars(Next)

-----------------------------------------------------------------------------
(* properties *)

\* a read-only transaction sees one unchanging state (C14), a Backup copies
\* one state (C18)
SnapshotStable ==
  \A g \in G : (pc[g] \in {"in2", "rel"} /\ Kind[g] # "w") =>
                 snap[g] = [ver |-> ver[Target[g]], val |-> val[Target[g]]]

\* strict serializability in its observable form here: the stored value is
\* the one written by the writer that committed last (no lost update, C17)
LastWriterWins ==
  \A d \in DB : (\A p \in Mergers : pc[p] \in {"m-start", "m-done"}) =>
                  (ver[d] = 0 => val[d] = InitVal)
NoLostUpdate ==
  [][\A p \in Mergers : (pc[p] = "m-rewrite" /\ pc'[p] = "m-unlock") => val'[MDb(p)] = val[MDb(p)]]_vars

LockSet == LockSetOn(Objects)

\* every run terminates: no deadlock (TLC's deadlock check with the explicit
\* Terminated step) and every lock is eventually released
Progress == <>Done
TypeOK == \A d \in DB : mu[d].w \in Procs \cup {None} /\ mu[d].r \subseteq Procs

\* configurations (a cfg file cannot spell functions)
KindMap   == [g \in G |-> IF g \in {"w1", "w2", "w3"} THEN "w" ELSE IF g \in {"b1"} THEN "b" ELSE "r"]
TargetMap == [g \in G |-> IF g \in {"w2", "r2"} THEN CHOOSE d \in DB : \A e \in DB : d = e \/ e = "d1" ELSE "d1"]
TargetOne == [g \in G |-> "d1"]
MTargetOne == [m \in Mergers |-> "d1"]
=============================================================================
