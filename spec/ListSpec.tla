------------------------------ MODULE ListSpec ------------------------------
(* Redis list semantics over a sequence.  Each operator returns             *)
(*   [res   |-> the Redis answer,                                           *)
(*    post  |-> the list afterwards,                                        *)
(*    mayErr|-> TRUE when "an error and no effect" is also admitted]        *)
(* mayErr is true exactly where the property statement leaves the choice    *)
(* "clamped or reported as errors" (DESIGN.md, C05).                        *)
EXTENDS Bytes, Integers

Norm(i, n) == IF i < 0 THEN n + i ELSE i
Max2(a, b) == IF a > b THEN a ELSE b
Min2(a, b) == IF a < b THEN a ELSE b

\* LRANGE: inclusive, negative from the tail, clamped.
LRangeOf(l, s, e) ==
  LET n  == Len(l)
      s1 == Max2(Norm(s, n), 0)
      e1 == Min2(Norm(e, n), n - 1)
  IN  IF n = 0 \/ s1 > e1 THEN <<>> ELSE SubSeq(l, s1 + 1, e1 + 1)

RangeMayErr(l, s, e) ==
  LET n == Len(l) s1 == Norm(s, n) e1 == Norm(e, n)
  IN  n = 0 \/ s1 < 0 \/ s1 > n - 1 \/ e1 < 0 \/ e1 > n - 1 \/ s1 > e1

LRange(l, s, e) == [res |-> LRangeOf(l, s, e), post |-> l, mayErr |-> RangeMayErr(l, s, e)]
LTrim(l, s, e)  == [res |-> 0, post |-> LRangeOf(l, s, e), mayErr |-> RangeMayErr(l, s, e)]

RPush(l, vals) == [res |-> Len(l) + Len(vals), post |-> l \o vals, mayErr |-> FALSE]
LPush(l, vals) == [res |-> Len(l) + Len(vals), post |-> Reverse(vals) \o l, mayErr |-> FALSE]

LPop(l)  == IF l = <<>> THEN [res |-> "", post |-> l, mayErr |-> TRUE, nil |-> TRUE]
            ELSE [res |-> Head(l), post |-> Tail(l), mayErr |-> FALSE, nil |-> FALSE]
RPop(l)  == IF l = <<>> THEN [res |-> "", post |-> l, mayErr |-> TRUE, nil |-> TRUE]
            ELSE [res |-> l[Len(l)], post |-> SubSeq(l, 1, Len(l) - 1), mayErr |-> FALSE, nil |-> FALSE]
LPeek(l) == [LPop(l) EXCEPT !.post = l]
RPeek(l) == [RPop(l) EXCEPT !.post = l]
LSize(l) == [res |-> Len(l), post |-> l, mayErr |-> l = <<>>]

\* indices (ascending) of the elements LREM removes
RemIdx(l, cnt, v) ==
  LET occ == {i \in 1..Len(l) : l[i] = v}
      k   == IF cnt < 0 THEN 0 - cnt ELSE cnt
  IN  IF cnt = 0 \/ k >= Cardinality(occ) THEN occ
      ELSE IF cnt > 0 THEN {i \in occ : Cardinality({j \in occ : j < i}) < k}
      ELSE {i \in occ : Cardinality({j \in occ : j > i}) < k}

Without(l, idx) == SelectSeq([i \in 1..Len(l) |-> <<i, l[i]>>], LAMBDA p : p[1] \notin idx)
Values(ps) == [i \in 1..Len(ps) |-> ps[i][2]]

LRem(l, cnt, v) ==
  LET idx == RemIdx(l, cnt, v)
      k   == IF cnt < 0 THEN 0 - cnt ELSE cnt
  IN  [res |-> Cardinality(idx), post |-> Values(Without(l, idx)),
       mayErr |-> l = <<>> \/ k > Len(l)]

\* LSET: the library documents non-negative indexes only; Redis accepts
\* negative ones.  In range (as given): exact.  Otherwise either Redis'
\* answer (negative index from the tail) or an error without effect.
LSet(l, i, v) ==
  LET n == Len(l) j == Norm(i, n)
  IN  IF j >= 0 /\ j < n
      THEN [res |-> 0, post |-> [l EXCEPT ![j + 1] = v], mayErr |-> i < 0, errOnly |-> FALSE]
      ELSE [res |-> 0, post |-> l, mayErr |-> TRUE, errOnly |-> TRUE]
=============================================================================
