----------------------------- MODULE NutsTrace ------------------------------
(***************************************************************************)
(* Trace validation: a history recorded from the real library (one ndjson  *)
(* line per public call return, written by /verif/harness) is accepted iff *)
(* every line is a step of Nuts.tla.  Many short histories are             *)
(* concatenated; a "reset" line starts the next one.                       *)
(***************************************************************************)
EXTENDS Nuts, Json

CONSTANTS TraceFile,    \* path of the ndjson trace
          DiagLine      \* 0, or the line whose pre-state is to be printed

TLog == ndJsonDeserialize(TraceFile)

VARIABLES l,            \* index of the next line to consume
          noteLines,    \* <<line, finding ids>> for each step that needed a deviant disjunct
          rt,           \* largest begin tick seen in this history (linearised concurrent runs)
          hinfo,        \* the "reset" line that started the current history (driver family, options)
          ever,         \* <<bucket, key, value>> of every put committed so far in this history
          pend,         \* the same for the puts of the transaction in progress
          div,          \* at the last Close the process and the log disagreed (only a recorded deviation can cause that)
          merged,       \* a Merge ran in this history (to the end, or until it failed half-way)
          gone          \* <<bucket, key>> whose last committed write is a delete or carries a TTL
tvars == <<vars, l, noteLines, rt, hinfo, ever, pend, div, merged, gone>>

Ev == TLog[l]
\* a call that panicked is recorded with a "panic" field: no action admits it (C20)
\* C19: an event of a product run carries one digest of (operation, arguments,
\* results) per storage configuration; all configurations must agree
\* C08: a read right after Open carries the digest of the same read right
\* before Close ("cmp"); the two must be equal - unless the process and the
\* log already disagreed at Close, which only a recorded deviation (SMove in
\* memory only, a commit in doubt) can bring about
\* Known finding F-C15-8: Merge drops every record of a list / set / sorted
\* set that has become empty, so after a reopen the structure's bucket no
\* longer exists and a read answers with an error where it answered
\* "empty" (0, no members) before Close.  A Merge that fails half-way has
\* dropped the records of the files it had treated by then, with the same
\* effect.
F_MergeEmpty == "F-C15-8"
AltSame == \A j \in 1..Len(Ev.alt) : Ev.alt[j] = Ev.alt[1]
StructEmpty(a) ==
  CASE a.op \in ListReads -> ListOf(mem, a.b, a.k) = <<>>
    [] a.op \in {"sdiff", "sunion"} -> SetOf(mem, a.b, a.k) = {} \/ SetOf(mem, a.b2, a.k2) = {}
    [] a.op \in SetReads -> SetOf(mem, a.b, a.k) = {}
    [] a.op \in ZReads -> DOMAIN ZOf(mem, a.b) = {}
    [] OTHER -> FALSE
EmptyAfterMerge == /\ F_MergeEmpty \in Dev /\ merged /\ "berr" \in DOMAIN Ev
                   /\ Ev.op \in ListReads \cup SetReads \cup ZReads /\ StructEmpty(Ev)
                   /\ Ev.err # Ev.berr \/ ("bok" \in DOMAIN Ev /\ "ok" \in DOMAIN Ev /\ Ev.ok # Ev.bok)
AltOK == "alt" \in DOMAIN Ev =>
           \/ AltSame
           \/ "cmp" \in DOMAIN Ev /\ (div \/ EmptyAfterMerge)
Is(ops) == l <= Len(TLog) /\ Ev.op \in ops /\ "panic" \notin DOMAIN Ev /\ AltOK /\ l' = l + 1

\* decode a recorded observation into the comparable form of Nuts!Obs*
ObsOf(o) ==
  [kv |-> {<<o.kv[i].b, o.kv[i].k, o.kv[i].v>> : i \in 1..Len(o.kv)},
   ls |-> {<<o.ls[i].b, o.ls[i].k, o.ls[i].vals>> : i \in {j \in 1..Len(o.ls) : o.ls[j].vals # <<>>}},
   st |-> {<<o.st[i].b, o.st[i].k, SeqToSet(o.st[i].vals)>> : i \in {j \in 1..Len(o.st) : o.st[j].vals # <<>>}},
   zs |-> {<<o.zs[i].b, [j \in 1..Len(o.zs[i].nodes) |->
                           <<o.zs[i].nodes[j].k, o.zs[i].nodes[j].s, o.zs[i].nodes[j].v>>]>> :
             i \in {j \in 1..Len(o.zs) : o.zs[j].nodes # <<>>}}]

TraceInit == Init /\ l = 1 /\ noteLines = {} /\ rt = 0 /\ hinfo = [op |-> "reset"] /\ ever = {} /\ pend = {} /\ div = FALSE /\ merged = FALSE /\ gone = {} /\ TLCSet(1, 1)

\* C14, real-time clause: a linearised concurrent history lists the
\* transactions in lock-acquisition order; that order must extend real-time
\* precedence, i.e. no transaction may end (etick) before a transaction
\* placed earlier has begun (tick).  Ticks come from one process-wide counter.
RealTimeOK ==
  ("etick" \in DOMAIN Ev) => Ev.etick > rt
NextRt ==
  IF Ev.op = "reset" THEN 0
  ELSE IF Ev.op = "begin" /\ "tick" \in DOMAIN Ev /\ Ev.tick > rt THEN Ev.tick ELSE rt

TrReset ==
  /\ Is({"reset"})
  /\ status' = "open" /\ mem' = Empty /\ log' = <<>> /\ tx' = NoTx
  /\ UNCHANGED notes

IsFin == "fin" \in DOMAIN Ev /\ Ev.fin

TrBegin    == Is({"begin"}) /\ Begin(Ev)
TrRead     == Is(Reads) /\ ~IsFin /\ Read(Ev)
TrMutate   == Is(Muts) /\ ~IsFin /\ (Mutate(Ev) \/ MutateRO(Ev) \/ SMoveDeviant(Ev))
TrFinished == Is(Reads \cup Muts \cup {"commit", "rollback"}) /\ IsFin /\ Finished(Ev)
TrCommit   == Is({"commit"}) /\ ~IsFin /\ (CommitOK(Ev) \/ CommitFail(Ev))
TrRollback == Is({"rollback"}) /\ ~IsFin /\ Rollback(Ev)
TrClose    == Is({"close"}) /\ Close(Ev)
TrOpen     == Is({"open"}) /\ Open(Ev)

\* Merge (C15): whether it succeeds or fails, the running process and a
\* reopen of the directory serve what they served before.  A merge event
\* carries the observation of the process (o) and of a shadow reopen (so)
\* taken right after the call.
F_MergeDs == "F-C15-1"
\* the deviation is admitted only when the log holds list records, or
\* when memory and log already disagree on the sets (the consequence of the
\* SMove finding F-C06-2: Merge filters the log by what is in memory), or
\* when the merge failed half-way on a database with sorted sets
HasRecs(ds) == \E i \in 1..Len(log) : log[i].r.ds = ds
HasDsRecs ==
  \/ HasRecs("ls")
  \/ F_SMove \in Dev /\ ObsSt(mem) # ObsSt(Replay(log))
  \/ Ev.err /\ HasRecs("zs")
MergeKeeps ==
  /\ ~Ev.operr /\ ObsMatches(ObsOf(Ev.o), mem, Ev.t0, Ev.t1)
  /\ ~Ev.serr /\ ObsMatches(ObsOf(Ev.so), Replay(log), Ev.t0, Ev.t1)
TrMerge ==
  /\ Is({"merge"}) /\ status = "open" /\ tx.st = "none"
  /\ IF "o" \notin DOMAIN Ev THEN Merge(Ev)            \* bare merge call, judged by later events
     ELSE \/ MergeKeeps /\ Merge(Ev)
          \* known finding: Merge of list/set/sorted-set records re-applies
          \* operation records; the rest of the history is not judged
          \/ /\ ~MergeKeeps /\ F_MergeDs \in Dev /\ HasDsRecs
             /\ status' = "lost" /\ notes' = notes \cup {F_MergeDs}
             /\ UNCHANGED <<mem, log, tx>>

\* Known finding F-C17-2: Merge is not synchronised with transactions.  It
\* decides from an unlocked look at the indexes which records are live and
\* rewrites them later under the lock, so a value committed in between is
\* superseded by the older one (lost update), here and after reopen.  In a
\* history during which a Merge goroutine ran (declared by its reset line),
\* the first read or observation that the ideal rule rejects ends the
\* judged part of the history.
F_MergeRace == "F-C17-2"
MergeRan == "merger" \in DOMAIN hinfo /\ hinfo.merger
\* what the finding can explain: a superseded value comes back.  Every pair a
\* read returns must have been committed at some time in this history, in
\* ascending key order; an entry that is nil, foreign or garbage is not
\* explained by it.
OnceCommitted(b, k, v) == <<b, k, v>> \in ever
\* ... and what it cannot explain: Merge rewrites live values only, so the
\* finding brings superseded *values* back, it never makes a key disappear.  A
\* key whose last committed write (in lock order) is a put without TTL must be
\* found; `gone` holds the keys whose last committed write is a delete or
\* carries a TTL (a transaction that does both to a key counts as a delete).
Gone == "<deleted>"
MustExist(b, k) == (\E t \in ever : t[1] = b /\ t[2] = k) /\ <<b, k>> \notin gone
\* Known finding F-C17-3: in HintKeyAndRAMIdxMode a reader fetches values from
\* the data files; Merge removes a file under it (it holds no lock), the
\* reader re-creates it empty and returns a nil entry in its place.
F_MergeNil == "F-C17-3"
NilEntryOK == F_MergeNil \in Dev /\ "mode" \in DOMAIN hinfo /\ hinfo.mode = 1
IsNilEntry(x) == x.v = "<nil entry>"
WeakReadOK(a) ==
  CASE a.op = "get" -> (a.err /\ ~MustExist(a.b, a.k)) \/ (~a.err /\ OnceCommitted(a.b, a.k, a.v)) \/ (~a.err /\ NilEntryOK /\ a.v = "<nil entry>")
    [] a.op = "getall" ->
         \/ a.err /\ \A t \in ever : t[1] = a.b => ~MustExist(a.b, t[2])
         \/ ~a.err /\ LET real == SelectSeq(a.res, LAMBDA x : ~IsNilEntry(x)) IN
                  /\ (Len(real) = Len(a.res) \/ NilEntryOK)
                  /\ \A i \in 1..Len(real) : OnceCommitted(a.b, real[i].k, real[i].v)
                  /\ \A i \in 1..(Len(real) - 1) : LexLess(real[i].k, real[i + 1].k)
                  /\ Len(real) = Len(a.res) => \A t \in ever : (t[1] = a.b /\ MustExist(a.b, t[2])) => \E i \in 1..Len(real) : real[i].k = t[2]
    [] a.op \in {"range", "pscan", "psscan"} ->
         a.err \/ LET real == SelectSeq(a.res, LAMBDA x : ~IsNilEntry(x)) IN
                  /\ (Len(real) = Len(a.res) \/ NilEntryOK)
                  /\ \A i \in 1..Len(real) : OnceCommitted(a.b, real[i].k, real[i].v)
                  /\ \A i \in 1..(Len(real) - 1) : LexLess(real[i].k, real[i + 1].k)
    [] OTHER -> TRUE
HasNil(a) ==
  CASE a.op = "get" -> ~a.err /\ a.v = "<nil entry>"
    [] a.op \in {"getall", "range", "pscan", "psscan"} -> ~a.err /\ \E i \in 1..Len(a.res) : IsNilEntry(a.res[i])
    [] OTHER -> FALSE
WeakObsOK(o) ==
  /\ \A i \in 1..Len(o.kv) : OnceCommitted(o.kv[i].b, o.kv[i].k, o.kv[i].v)
  /\ (\A i \in 1..Len(o.kv) : o.kv[i].v # "<nil entry>") =>
        \A t \in ever : MustExist(t[1], t[2]) => \E i \in 1..Len(o.kv) : o.kv[i].b = t[1] /\ o.kv[i].k = t[2]
TrMergeRace ==
  /\ MergeRan /\ F_MergeRace \in Dev /\ status # "lost"
  /\ \/ Is(Reads) /\ ~IsFin /\ tx.st \in {"rw", "ro"} /\ ~ReadOK(Ev, tx.view, Dev) /\ WeakReadOK(Ev)
     \/ Is({"obs"}) /\ tx.st = "none" /\ ~ObsMatches(ObsOf(Ev.o), mem, Ev.t0, Ev.t1) /\ WeakObsOK(Ev.o)
     \/ /\ Is({"shadow", "backup"}) /\ tx.st = "none" /\ ~Ev.err /\ WeakObsOK(Ev.o)
        /\ ~ObsMatches(ObsOf(Ev.o), Replay(log), Ev.t0, Ev.t1)
  /\ status' = "lost"
  /\ notes' = notes \cup {F_MergeRace} \cup (IF Ev.op \in Reads /\ HasNil(Ev) THEN {F_MergeNil} ELSE {})
  /\ UNCHANGED <<mem, log, tx>>

\* after a deviating Merge the history is no longer judged - except that in
\* the histories of the merge race every read must still return only values
\* that were once committed, a call must not panic, and Open must succeed
TrLost ==
  /\ l <= Len(TLog) /\ status = "lost" /\ Ev.op # "reset" /\ l' = l + 1
  /\ MergeRan => ( /\ "panic" \notin DOMAIN Ev
                   /\ Ev.op \in Reads => WeakReadOK(Ev)
                   /\ Ev.op \in {"obs", "shadow", "backup"} => (("err" \in DOMAIN Ev => ~Ev.err) /\ WeakObsOK(Ev.o))
                   /\ Ev.op = "open" => ~Ev.err )
  /\ notes' = IF MergeRan /\ Ev.op \in Reads /\ HasNil(Ev) THEN notes \cup {F_MergeNil} ELSE notes
  /\ UNCHANGED <<status, mem, log, tx>>

\* full observation of the running database, outside any transaction
TrObs ==
  /\ Is({"obs"})
  /\ status = "open" /\ tx.st = "none"
  /\ ObsMatches(ObsOf(Ev.o), mem, Ev.t0, Ev.t1)
  /\ UNCHANGED vars

\* full observation of a copy of the directory opened separately (shadow
\* reopen, Backup): Open succeeded on the copy and serves Replay(log)
TrCopyObs ==
  /\ Is({"shadow", "backup"})
  /\ tx.st = "none"
  /\ ~Ev.err
  /\ ObsMatches(ObsOf(Ev.o), Replay(log), Ev.t0, Ev.t1)
  /\ UNCHANGED vars

\* The directory as it was at a file-mutation point (possibly with a torn
\* last write, or after power loss) of the call that follows in the trace,
\* opened by the real Open in a child process: recovery succeeds and serves
\* the transactions that had returned, plus possibly the in-flight one in
\* full (C10, C11, C16).  The in-flight transaction is the one open in the
\* model at this point (the crash happened inside its Commit call).
CrashServes(lg) == ObsMatches(ObsOf(Ev.o), Replay(lg), Ev.t0, Ev.t1)
F_MergeCrash == "F-C16-1"
TrCrash ==
  /\ Is({"crash"})
  /\ \/ /\ ~Ev.err
        /\ \/ CrashServes(log)
           \/ tx.st = "rw" /\ CrashServes(log \o Stamp(tx.id, tx.recs))
        /\ UNCHANGED vars
     \* known finding: a crash inside Merge on a database with list or
     \* sorted-set records (or with sets that SMove changed in memory only)
     \/ /\ F_MergeCrash \in Dev /\ Ev.during = "merge" /\ tx.st = "none"
        /\ HasRecs("ls") \/ HasRecs("zs") \/ (F_SMove \in Dev /\ ObsSt(mem) # ObsSt(Replay(log)))
        /\ Ev.err \/ ~CrashServes(log)
        /\ notes' = notes \cup {F_MergeCrash}
        /\ UNCHANGED <<status, mem, log, tx>>

\* The process died and the database is opened again on what it left behind
\* (C10): recovery succeeds and the database now holds the transactions that
\* had returned, or those plus the one whose Commit was in progress, in
\* full - and goes on from there.
TrCrashOpen ==
  /\ Is({"crashopen"})
  /\ ~Ev.err
  /\ \/ log' = ClearDoubt(log)
     \/ tx.st = "rw" /\ tx.recs # <<>> /\ log' = ClearDoubt(log) \o Stamp(tx.id, tx.recs)
  /\ mem' = Replay(log')
  /\ ObsMatches(ObsOf(Ev.o), mem', Ev.t0, Ev.t1)
  /\ status' = "open" /\ tx' = NoTx
  /\ UNCHANGED notes

TraceNext ==
  /\ \/ TrReset \/ TrBegin \/ TrRead \/ TrMutate \/ TrFinished \/ TrCommit \/ TrRollback
     \/ TrClose \/ TrOpen \/ TrMerge \/ TrObs \/ TrCopyObs \/ TrCrash \/ TrCrashOpen \/ TrLost \/ TrMergeRace
  /\ noteLines' = (IF notes' = notes THEN noteLines ELSE noteLines \cup {<<l, notes' \ notes>>})
                   \cup (IF "cmp" \in DOMAIN Ev /\ ~AltSame /\ ~div THEN {<<l, {F_MergeEmpty}>>} ELSE {})
  /\ merged' = IF Ev.op = "reset" THEN FALSE ELSE IF Ev.op = "merge" THEN TRUE ELSE merged
  /\ gone' = IF Ev.op = "reset" THEN {}
             ELSE IF Ev.op = "commit" /\ ~Ev.err /\ ~IsFin
                  THEN LET dels == {<<t[1], t[2]>> : t \in {x \in pend : x[3] = Gone}}
                           puts == {<<t[1], t[2]>> : t \in {x \in pend : x[3] # Gone}}
                       IN (gone \ puts) \cup dels
             ELSE gone
  /\ RealTimeOK /\ rt' = NextRt
  /\ hinfo' = IF Ev.op = "reset" THEN Ev ELSE hinfo
  /\ div' = IF Ev.op = "reset" THEN FALSE
            ELSE IF Ev.op = "close" /\ status = "open" THEN ~SameObs(Replay(log), mem, Ev.t0) ELSE div
  /\ pend' = IF Ev.op \in {"begin", "reset"} THEN {}
             ELSE IF Ev.op = "put" /\ ~Ev.err /\ ~IsFin
                  THEN pend \cup {<<Ev.b, Ev.k, Ev.v>>} \cup (IF "ttl" \in DOMAIN Ev /\ Ev.ttl # 0 THEN {<<Ev.b, Ev.k, Gone>>} ELSE {})
             ELSE IF Ev.op = "del" /\ ~Ev.err /\ ~IsFin THEN pend \cup {<<Ev.b, Ev.k, Gone>>} ELSE pend
  /\ ever' = IF Ev.op = "reset" THEN {}
             ELSE IF Ev.op = "commit" /\ ~Ev.err /\ ~IsFin THEN ever \cup pend ELSE ever

TraceSpec == TraceInit /\ [][TraceNext]_tvars

\* All lines consumed.  With in-doubt commits the behaviour may branch, so
\* the acceptance criterion is the deepest line reached, kept in a TLC
\* register (requires -workers 1).  HighWater is a state constraint that is
\* always TRUE; it only records.
HighWater ==
  /\ TLCSet(1, IF TLCGet(1) < l THEN l ELSE TLCGet(1))
  /\ (DiagLine # 0 /\ l = DiagLine) =>
        PrintT(<<"DIAG", l, [status |-> status, mem |-> mem, tx |-> tx, loglen |-> Len(log), replay |-> Replay(log)]>>)
  /\ (l = Len(TLog) + 1) => PrintT(<<"TRACE_NOTES", noteLines>>)

TraceAccepted ==
  /\ PrintT(<<"TRACE_REACHED", TLCGet(1) - 1, "OF", Len(TLog)>>)
  /\ TLCGet(1) - 1 = Len(TLog)
=============================================================================
