----------------------------- MODULE MergeTrace ------------------------------
(***************************************************************************)
(* Conformance of the real DB.Merge to the protocol of Merge.tla (C15, C16 *)
(* at protocol grain).  The verifFS hook reports every creation, record    *)
(* write (with its bytes) and removal of a data file; the `mergeproto`     *)
(* driver groups them by the public call in progress and decodes the       *)
(* records.  Here every event must be the next step of Merge.tla:          *)
(*   - user commits and rotations feed the model's files and index (the    *)
(*     environment of Merge);                                              *)
(*   - Merge treats the data files in ascending order (mscan = Scan);      *)
(*   - the records it rewrites are exactly the live records of the file,   *)
(*     in file order, all into one new file (mhalf = RewriteHalf), the     *)
(*     commit mark on the last one only (mcommit = RewriteCommit); a file  *)
(*     without live records is not rewritten (mskip = SkipRewrite);        *)
(*   - the file is removed after that (mremove = Remove), and a new file   *)
(*     replaces it exactly when it was the active one;                     *)
(*   - after every step a reopen would serve what was served when Merge    *)
(*     started (MidMergeSafe: Merge.tla's MergeCrashSafe, evaluated on the *)
(*     files the real Merge left at that point), and after Merge the       *)
(*     process and a reopen serve the same as before (MergePreserves);     *)
(*   - the observations recorded from the real process and from a reopened *)
(*     copy equal the model's ObsMem and ObsDisk.                          *)
(* One implementation step (the rewrite transaction) is two actions of the *)
(* specification; the driver emits two events for it.                      *)
(***************************************************************************)
EXTENDS Merge, Json, Integers

CONSTANTS TraceFile, DiagLine, Dev
TLog == ndJsonDeserialize(TraceFile)

VARIABLES l,
          fname      \* file names, parallel to `files`
tvars == <<vars, l, fname>>
Ev == TLog[l]
Is(e) == l <= Len(TLog) /\ Ev.op = e /\ l' = l + 1

\* the key universe of the driver, declared by the first line of the trace
TKeys == {TLog[1].keys[i] : i \in DOMAIN TLog[1].keys}

Known(n) == \E i \in 1..Len(fname) : fname[i] = n /\ ~files[i].gone
FIdx(n) == CHOOSE i \in 1..Len(fname) : fname[i] = n /\ ~files[i].gone
AsFn(s) == [k \in {s[i].k : i \in DOMAIN s} |-> s[CHOOSE i \in DOMAIN s : s[i].k = k].v]

TInit == Init /\ l = 1 /\ fname = <<"?">> /\ TLCSet(1, 1)

TrReset ==
  /\ Is("reset")
  /\ files' = <<[recs |-> <<>>, gone |-> FALSE]>> /\ active' = 1 /\ fname' = <<Ev.file>>
  /\ idx' = [k \in Keys |-> NoPos] /\ lst' = <<>> /\ nuser' = 0 /\ ver' = 1
  /\ phase' = "user" /\ todo' = <<>> /\ pending' = <<>> /\ half' = FALSE
  /\ pre' = [kv |-> <<>>, ls |-> <<>>] /\ crashedIn' = "none" /\ afterPut' = <<>>

-----------------------------------------------------------------------------
(* the environment of Merge: rotations and user commits *)

\* a data file was created outside Merge: it is the active file from now on
TrMk ==
  /\ Is("mk") /\ phase = "user" /\ ~Known(Ev.file)
  /\ files' = Append(files, [recs |-> <<>>, gone |-> FALSE]) /\ fname' = Append(fname, Ev.file)
  /\ active' = Len(files) + 1
  /\ UNCHANGED <<idx, lst, nuser, ver, phase, todo, pending, half, pre, crashedIn, afterPut>>

RECURSIVE Place(_, _, _)
Place(fs, rs, ok) ==
  IF rs = <<>> THEN fs
  ELSE LET r == Head(rs) IN Place([fs EXCEPT ![FIdx(r.file)].recs = Append(@, Rec(r.kind, r.k, r.v, ok))], Tail(rs), ok)
PosOf(rs, j) == LET i == FIdx(rs[j].file) IN
                [f |-> i, p |-> Len(files[i].recs) + Cardinality({m \in 1..j : rs[m].file = rs[j].file})]
NewIdx(rs) == [k \in Keys |-> LET js == {j \in 1..Len(rs) : rs[j].k = k} IN
                              IF js = {} THEN idx[k] ELSE PosOf(rs, CHOOSE j \in js : \A m \in js : m <= j)]

\* Tx.Commit returned.  recs: the records that reached the files completely,
\* in order.  A commit that returned nil wrote all its records, the mark on
\* the last one only; one that failed left no marked record.
TrTx ==
  /\ Is("tx") /\ phase = "user"
  /\ \A j \in DOMAIN Ev.recs : Known(Ev.recs[j].file) /\ Ev.recs[j].k \in Keys
  /\ ~Ev.err => (Len(Ev.recs) = Ev.n /\ \A j \in DOMAIN Ev.recs : Ev.recs[j].mark = (j = Len(Ev.recs)))
  /\ Ev.err => \A j \in DOMAIN Ev.recs : ~Ev.recs[j].mark
  /\ files' = Place(files, Ev.recs, ~Ev.err)
  /\ idx' = IF Ev.err THEN idx ELSE NewIdx(Ev.recs)
  /\ UNCHANGED <<active, lst, nuser, ver, phase, todo, pending, half, pre, crashedIn, afterPut, fname>>

\* Close + Open: the index is rebuilt from the files (Agree says: unchanged)
TrReopen ==
  /\ Is("reopen") /\ phase = "user" /\ ~Ev.err
  /\ UNCHANGED <<vars, fname>>

\* what the process serves, and what a reopened copy of the directory serves
TrObs ==
  /\ Is("obs") /\ phase = "user" /\ ~Ev.serr
  /\ MemKV = AsFn(Ev.kv)
  /\ ObsDisk.kv = AsFn(Ev.so)
  /\ UNCHANGED <<vars, fname>>

-----------------------------------------------------------------------------
(* DB.Merge: the actions of Merge.tla, bound to the observed events *)

TrMNone ==
  /\ Is("mnone") /\ phase = "user" /\ Len(Existing) < 2
  /\ UNCHANGED <<vars, fname>>

\* the data files Merge found, in ascending order of their ids
TrMBegin ==
  /\ Is("mbegin")
  /\ Len(Ev.files) = Len(Existing) /\ \A i \in 1..Len(Existing) : fname[Existing[i]] = Ev.files[i]
  /\ MergeBegin
  /\ UNCHANGED fname

TrMScan ==
  /\ Is("mscan") /\ todo # <<>> /\ fname[Head(todo)] = Ev.file
  /\ Scan
  /\ UNCHANGED fname

SameRecs(rs, ps) == /\ Len(rs) = Len(ps)
                    /\ \A i \in 1..Len(ps) : rs[i].k = ps[i].k /\ rs[i].kind = ps[i].kind /\ rs[i].v = ps[i].v
TrMHalf ==
  /\ Is("mhalf") /\ ~Known(Ev.file)
  /\ \A j \in DOMAIN Ev.recs : Ev.recs[j].file = Ev.file
  /\ SameRecs(Ev.recs, pending)
  /\ RewriteHalf
  /\ fname' = Append(fname, Ev.file)

TrMCommit ==
  /\ Is("mcommit") /\ Ev.marks
  /\ RewriteCommit
  /\ UNCHANGED fname

TrMSkip ==
  /\ Is("mskip") /\ pending = <<>>
  /\ SkipRewrite
  /\ UNCHANGED fname

TrMRemove ==
  /\ Is("mremove") /\ todo # <<>> /\ fname[Head(todo)] = Ev.file
  /\ (Ev.repl # "") = (Head(todo) = active)
  /\ Remove
  /\ fname' = IF Ev.repl # "" THEN Append(fname, Ev.repl) ELSE fname

\* DB.Merge returned nil: every file has been treated
TrMEnd ==
  /\ Is("mend") /\ ~Ev.err /\ Ev.left = 0 /\ phase = "after"
  /\ phase' = "user"
  /\ UNCHANGED <<files, active, idx, lst, nuser, ver, todo, pending, half, pre, crashedIn, afterPut, fname>>

\* DB.Merge gave up in front of a file it cannot read: a failed commit left
\* the prefix of a record in it (torn: the files in that condition, from the
\* recorded writes).  Nothing was changed for this file; the files treated
\* before it stay treated.
TrMEndErr ==
  /\ Is("mend") /\ Ev.err /\ Ev.left = 0 /\ phase = "merge" /\ todo # <<>>
  /\ \E i \in DOMAIN Ev.torn : Ev.torn[i] = fname[Head(todo)]
  /\ phase' = "user" /\ todo' = <<>>
  /\ UNCHANGED <<files, active, idx, lst, nuser, ver, pending, half, pre, crashedIn, afterPut, fname>>

-----------------------------------------------------------------------------
\* Merge.tla's properties, required of every state the real execution produced
TraceInv == TypeOK /\ Agree /\ MergePreserves /\ MidMergeSafe /\ Len(fname) = Len(files)

TNext == /\ \/ TrReset \/ TrMk \/ TrTx \/ TrReopen \/ TrObs \/ TrMNone \/ TrMBegin \/ TrMScan \/ TrMHalf \/ TrMCommit \/ TrMSkip
            \/ TrMRemove \/ TrMEnd \/ TrMEndErr
         /\ TraceInv'
TraceSpec == TInit /\ [][TNext]_tvars

HighWater ==
  /\ TLCSet(1, IF TLCGet(1) < l THEN l ELSE TLCGet(1))
  /\ (DiagLine # 0 /\ l = DiagLine) => PrintT(<<"DIAG", l, [phase |-> phase, active |-> active, fname |-> fname, files |-> files, idx |-> idx,
                                                                 todo |-> todo, pending |-> pending, pre |-> pre, mem |-> MemKV, disk |-> ObsDisk.kv]>>)
  /\ (l = Len(TLog) + 1) => PrintT(<<"TRACE_NOTES", {}>>)
TraceAccepted ==
  /\ PrintT(<<"TRACE_REACHED", TLCGet(1) - 1, "OF", Len(TLog)>>)
  /\ TLCGet(1) - 1 = Len(TLog)
=============================================================================
