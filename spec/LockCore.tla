------------------------------ MODULE LockCore ------------------------------
(***************************************************************************)
(* The rules shared by the concurrency model (Lock.tla) and by trace       *)
(* validation of recorded lock / shared-access events (LockTrace.tla):     *)
(* the guards of sync.RWMutex and the Eraser-style lockset monitor.        *)
(***************************************************************************)
EXTENDS Naturals, Sequences, FiniteSets, TLC

CONSTANT DB         \* databases (each has one RWMutex)

None == "none"

VARIABLES
  mu,        \* d -> [w: holder or None, r: set of holders, pend: set of waiting writers]
  cand,      \* shared object -> [top, s]: locks held at every access so far
  users      \* shared object -> set of <<proc, isWrite>>

\* sync.RWMutex: Lock waits for all holders; RLock waits while a writer holds
AcquireW(p, d) ==
  /\ mu[d].w = None /\ mu[d].r = {}
  /\ mu' = [mu EXCEPT ![d].w = p, ![d].pend = @ \ {p}]

\* ... or waits (writer preference)
AcquireR(p, d) ==
  /\ mu[d].w = None /\ mu[d].pend = {}
  /\ mu' = [mu EXCEPT ![d].r = @ \cup {p}]

\* the same without writer preference: what a recorded trace can show (the
\* moment a writer starts waiting is not observable)
AcquireRObs(p, d) ==
  /\ mu[d].w = None
  /\ mu' = [mu EXCEPT ![d].r = @ \cup {p}]

ReleaseW(p, d) == mu[d].w = p /\ mu' = [mu EXCEPT ![d].w = None]
ReleaseR(p, d) == p \in mu[d].r /\ mu' = [mu EXCEPT ![d].r = @ \ {p}]

\* at most one writer, and never together with readers
Mutex == \A d \in DB : mu[d].w # None => mu[d].r = {}

\* locks that order an access (Eraser for read/write locks): a write access
\* is protected by the locks held in write mode, a read access by the locks
\* held in either mode
Protecting(p, isWrite) ==
  {d \in DB : mu[d].w = p} \cup (IF isWrite THEN {} ELSE {d \in DB : p \in mu[d].r})

Access(p, objs) ==   \* objs: set of <<object, isWrite>>
  /\ cand' = [o \in DOMAIN cand |->
                IF \E a \in objs : a[1] = o
                THEN LET a == CHOOSE a \in objs : a[1] = o
                         h == Protecting(p, a[2])
                     IN IF cand[o].top THEN [top |-> FALSE, s |-> h] ELSE [top |-> FALSE, s |-> cand[o].s \cap h]
                ELSE cand[o]]
  /\ users' = [o \in DOMAIN users |->
                IF \E a \in objs : a[1] = o
                THEN users[o] \cup {<<p, (CHOOSE a \in objs : a[1] = o)[2]>>}
                ELSE users[o]]

NoAccess == UNCHANGED <<cand, users>>

\* Eraser discipline: an object written by one goroutine and touched by
\* another is protected by a common lock at all its accesses
RacyWith(o, us, cd) == Cardinality({u[1] : u \in us[o]}) > 1 /\ (\E u \in us[o] : u[2]) /\ (cd[o].top \/ cd[o].s = {})
Racy(o) == RacyWith(o, users, cand)
LockSetOn(objs) == \A o \in objs : ~Racy(o)
=============================================================================
