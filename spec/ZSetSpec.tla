------------------------------ MODULE ZSetSpec ------------------------------
(* A sorted set is a function  memberKey |-> [s: score, v: value]; member   *)
(* keys are byte strings, scores integers.  Rank order is (score, key)      *)
(* ascending; ranks are 1-based, negative ranks count from the tail         *)
(* (-1 = last), as documented in the README and ds/zset.                    *)
EXTENDS Bytes, Integers

ZLess(z, a, b) == z[a].s < z[b].s \/ (z[a].s = z[b].s /\ LexLess(a, b))

\* member keys in rank order
ZOrder(z) == SetToSortSeq(DOMAIN z, LAMBDA a, b : ZLess(z, a, b))

ZPut(z, k, s, v) == [x \in DOMAIN z \cup {k} |-> IF x = k THEN [s |-> s, v |-> v] ELSE z[x]]
ZDel(z, ks)      == [x \in DOMAIN z \ ks |-> z[x]]

\* 1-based rank of member k
ZRankOf(z, k) == Cardinality({x \in DOMAIN z : ZLess(z, x, k)}) + 1

\* sanitize a rank like ds/zset: negative from the tail, then clamp below to 1
SanRank(i, n) == LET j == IF i < 0 THEN n + i + 1 ELSE i IN IF j <= 0 THEN 1 ELSE j

\* members with rank between the two sanitized bounds, ascending; reversed
\* when start > end after sanitizing
ZRankRange(z, s, e) ==
  LET n  == Cardinality(DOMAIN z)
      a  == SanRank(s, n)
      b  == SanRank(e, n)
      lo == IF a <= b THEN a ELSE b
      hi == IF a <= b THEN b ELSE a
      o  == ZOrder(z)
      asc == IF lo > n THEN <<>> ELSE SubSeq(o, lo, IF hi > n THEN n ELSE hi)
  IN  IF a <= b THEN asc ELSE Reverse(asc)

\* TRUE when both ranks as given lie in 1..n or -n..-1 (no clamping needed)
RanksInRange(z, s, e) ==
  LET n == Cardinality(DOMAIN z)
      ok(i) == (i >= 1 /\ i <= n) \/ (i <= 0 - 1 /\ i >= 0 - n)
  IN  ok(s) /\ ok(e)

\* Score range, closed unless excluded.  start > end: descending order and
\* the exclusion flags follow their bounds.  limit > 0 truncates in traversal
\* order.
ZScoreRange(z, start, end, exS, exE, limit) ==
  LET rev == start > end
      lo  == IF rev THEN end ELSE start
      hi  == IF rev THEN start ELSE end
      exLo == IF rev THEN exE ELSE exS
      exHi == IF rev THEN exS ELSE exE
      inr(k) == (IF exLo THEN z[k].s > lo ELSE z[k].s >= lo) /\
                (IF exHi THEN z[k].s < hi ELSE z[k].s <= hi)
      asc == SelectSeq(ZOrder(z), inr)
      ord == IF rev THEN Reverse(asc) ELSE asc
  IN  IF limit > 0 THEN Take(ord, limit) ELSE ord

ZMin(z) == ZOrder(z)[1]
ZMax(z) == ZOrder(z)[Cardinality(DOMAIN z)]
=============================================================================
