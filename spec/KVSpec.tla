------------------------------- MODULE KVSpec -------------------------------
(* Pure semantics of a key/value bucket: an ordered map with TTL.           *)
(* A bucket's contents is a function  key |-> Rec  where                    *)
(*   Rec = [v: value, ttl: Nat, tsLo: Int, tsHi: Int, del: BOOLEAN]         *)
(* tsLo..tsHi bounds the timestamp of the write (exact for                  *)
(* PutWithTimestamp, the clock readings around the call for Put).           *)
(* A read happens at some instant in [t0, t1].                              *)
EXTENDS Bytes, Integers

\* A record is certainly live / certainly dead for a read in [t0,t1].
SureLive(r, t1) == ~r.del /\ (r.ttl = 0 \/ t1 < r.tsLo + r.ttl)
SureDead(r, t0) == r.del \/ (r.ttl > 0 /\ t0 >= r.tsHi + r.ttl)

\* m: function key |-> Rec.  Every key set a correct implementation may
\* regard as live; a singleton unless an expiry instant falls in [t0,t1].
LiveSets(m, t0, t1) ==
  LET sure == {k \in DOMAIN m : SureLive(m[k], t1)}
      may  == {k \in DOMAIN m : ~SureDead(m[k], t0)}
  IN  {sure \cup X : X \in SUBSET (may \ sure)}

\* Results are sequences of keys (values are looked up by the caller).
AllRes(L)            == SortBytes(L)
RangeRes(L, s, e)    == SortBytes({k \in L : LexLeq(s, k) /\ LexLeq(k, e)})
PrefixAll(L, p)      == SortBytes({k \in L : IsPrefixOf(p, k)})
PrefixSearchAll(L, p, ms) == SortBytes({k \in L : IsPrefixOf(p, k) /\ k \in ms})

\* Paging: skip off, then at most lim when lim > 0.
Page(ks, off, lim) ==
  LET rest == Drop(ks, off)
  IN  IF lim > 0 THEN Take(rest, lim) ELSE rest

\* The page a caller may see.  lim > 0: exactly the page.  lim = -1
\* (ScanNoLimit): everything after the offset.  lim = 0: the statement fixes
\* no count, so any prefix of the remaining sequence is admitted.
PageOK(got, ks, off, lim) ==
  IF lim = 0 THEN IsPrefixSeq(got, Drop(ks, off))
  ELSE got = Page(ks, off, lim)
=============================================================================
