------------------------------- MODULE DsGen --------------------------------
(***************************************************************************)
(* Specification -> code: bounded-exhaustive enumeration of data-structure *)
(* states and calls (C05, C06, C07, C13).  The state of this model is the  *)
(* abstract structure (a list, a family of sets, a sorted set); every      *)
(* action is one API call with concrete arguments, its successor state is  *)
(* computed with ListSpec/SetSpec/ZSetSpec (through Nuts!ApplyRecs, the    *)
(* same function the API-grain specification uses).  TLC's breadth-first   *)
(* search visits every reachable state within the bound and, for each,     *)
(* every call once; the action emits the transition as one JSON line       *)
(* (pre-state, call, the specification's successor).  The Go replayer      *)
(* executes every emitted transition on the real library and records what  *)
(* it saw; NutsTrace then validates those recordings.                      *)
(***************************************************************************)
EXTENDS Nuts, Json

CONSTANTS Kind,      \* "list" | "set" | "zset"
          GVals,     \* element values / members
          MaxLen,    \* bound on list length / members per set / zset size
          GKeys,     \* sorted-set member keys (byte strings)
          GScores,   \* sorted-set scores
          GRadius,   \* score-query bounds range over -GRadius..GRadius
          GLim       \* query limits range over 0..GLim

VARIABLE out         \* last emitted transition (hidden by the VIEW)

gvars == <<vars, out>>

B  == "g"            \* the bucket
LK == "k"            \* the list key
SK == {"k1", "k2"}   \* set keys

Range2(n) == (0 - n - 2)..(n + 1)

\* ---------------------------------------------------------------- lists
CurList == ListOf(mem, B, LK)

ListCalls ==
  LET n == Len(CurList) I == Range2(n) IN
       [op : {"rpush", "lpush"}, b : {B}, k : {LK}, vals : {<<v>> : v \in GVals} \cup {<<v, w>> : v, w \in GVals}]
  \cup [op : {"lpop", "rpop", "lpeek", "rpeek", "lsize"}, b : {B}, k : {LK}]
  \cup [op : {"lrange", "ltrim"}, b : {B}, k : {LK}, s : I, e : I]
  \cup [op : {"lrem"}, b : {B}, k : {LK}, cnt : I, v : GVals]
  \cup [op : {"lset"}, b : {B}, k : {LK}, i : I, v : GVals]

\* The specification's own answer for a call (used to complete the call
\* record so that Nuts!Recs / Nuts!MutOK can be applied to it).
ListAnswer(c) ==
  LET l == CurList IN
  CASE c.op = "lpop"   -> [res |-> L!LPop(l).res, err |-> L!LPop(l).nil]
    [] c.op = "rpop"   -> [res |-> L!RPop(l).res, err |-> L!RPop(l).nil]
    [] c.op = "lpeek"  -> [res |-> L!LPeek(l).res, err |-> L!LPeek(l).nil]
    [] c.op = "rpeek"  -> [res |-> L!RPeek(l).res, err |-> L!RPeek(l).nil]
    [] c.op = "lsize"  -> [n |-> Len(l), err |-> FALSE]
    [] c.op = "lrange" -> [res |-> L!LRangeOf(l, c.s, c.e), err |-> FALSE]
    [] c.op = "ltrim"  -> [err |-> L!LRangeOf(l, c.s, c.e) = <<>>]
    [] c.op = "lrem"   -> [n |-> L!LRem(l, c.cnt, c.v).res, err |-> (IF c.cnt < 0 THEN 0 - c.cnt ELSE c.cnt) > Len(l)]
    [] c.op = "lset"   -> [err |-> L!LSet(l, c.i, c.v).errOnly \/ c.i < 0]
    [] OTHER           -> [err |-> FALSE]

\* ---------------------------------------------------------------- sets
SetCalls ==
       [op : {"sadd", "srem"}, b : {B}, k : SK, vals : {<<v>> : v \in GVals} \cup {<<v, v>> : v \in GVals}]
  \cup [op : {"spop", "smembers", "scard", "shaskey"}, b : {B}, k : SK]
  \cup [op : {"smove"}, b : {B}, k : SK, b2 : {B}, k2 : SK, v : GVals, two : BOOLEAN]
  \cup [op : {"sismember"}, b : {B}, k : SK, v : GVals]
  \cup [op : {"saremembers"}, b : {B}, k : SK, vals : {<<v, w>> : v, w \in GVals}]
  \cup [op : {"sdiff", "sunion"}, b : {B}, k : SK, b2 : {B}, k2 : SK, two : BOOLEAN]

SetAnswer(c) ==
  CASE c.op = "spop"  -> IF SetOf(mem, c.b, c.k) = {} THEN [err |-> TRUE, res |-> ""]
                         ELSE [err |-> FALSE, res |-> CHOOSE x \in SetOf(mem, c.b, c.k) : TRUE]
    [] c.op = "smove" -> [err |-> FALSE, ok |-> c.v \in SetOf(mem, c.b, c.k)]
    [] OTHER          -> [err |-> FALSE]

\* ---------------------------------------------------------------- sorted sets
CurZ == ZOf(mem, B)

ZCalls ==
  LET n == Cardinality(DOMAIN CurZ)
      I == (0 - n - 2)..(n + 2)
      SB == (0 - GRadius)..GRadius IN
       [op : {"zadd"}, b : {B}, k : GKeys, s : GScores, v : GVals]
  \cup [op : {"zrem", "zrank", "zrevrank", "zscore", "zgetbykey"}, b : {B}, k : GKeys]
  \cup [op : {"zpopmax", "zpopmin", "zpeekmax", "zpeekmin", "zcard", "zmembers"}, b : {B}]
  \cup [op : {"zremrank", "zrangebyrank"}, b : {B}, s : I, e : I]
  \cup [op : {"zrangebyscore", "zcount"}, b : {B}, s : SB, e : SB, exs : BOOLEAN, exe : BOOLEAN, lim : 0..GLim]

ZAnswer(c) ==
  LET z == CurZ
      nodeOf(k) == [k |-> k, s |-> z[k].s, v |-> z[k].v]
      nonode == [k |-> <<>>, s |-> 0, v |-> ""] IN
  CASE c.op = "zpopmax" -> IF DOMAIN z = {} THEN [err |-> FALSE, nil |-> TRUE, node |-> nonode]
                           ELSE [err |-> FALSE, nil |-> FALSE, node |-> nodeOf(Z!ZMax(z))]
    [] c.op = "zpopmin" -> IF DOMAIN z = {} THEN [err |-> FALSE, nil |-> TRUE, node |-> nonode]
                           ELSE [err |-> FALSE, nil |-> FALSE, node |-> nodeOf(Z!ZMin(z))]
    [] OTHER            -> [err |-> FALSE]

\* ---------------------------------------------------------------- KV paging (C03)
\* The state is a status per key of a small universe with nested prefixes;
\* every state is an initial state (no transitions between them), and for
\* each one every PrefixScan / PrefixSearchScan query is emitted.
PKeys == {<<97>>, <<97, 98>>, <<97, 98, 99>>, <<98>>, <<98, 99>>}      \* a ab abc b bc
PKeysUsed == IF MaxLen >= 5 THEN PKeys ELSE {k \in PKeys : k # <<98, 99>>}
PStatus == {"absent", "live", "deleted", "expired"}
PPrefixes == {<<>>, <<97>>, <<97, 98>>, <<98>>, <<99>>}
PRegs == {".*", "^$", "c", "^b"}
PRec(st) == IF st = "deleted" THEN [v |-> "", ttl |-> 0, tsLo |-> 0, tsHi |-> 0, del |-> TRUE]
            ELSE [v |-> "v", ttl |-> (IF st = "expired" THEN 500 ELSE 0), tsLo |-> 0, tsHi |-> 0, del |-> FALSE]
PStates ==
  {[kv |-> [p \in {<<B, k>> : k \in {x \in PKeysUsed : f[x] # "absent"}} |-> PRec(f[p[2]])],
    ls |-> <<>>, st |-> <<>>, zs |-> <<>>] : f \in [PKeysUsed -> PStatus]}
PageCalls ==
  LET n == Cardinality(PKeysUsed) IN
       [op : {"pscan"}, b : {B}, p : PPrefixes, off : 0..(n + 1), lim : (0 - 1)..(n + 1)]
  \cup [op : {"psscan"}, b : {B}, p : PPrefixes, off : {0}, lim : (0 - 1)..(n + 1), reg : PRegs]
PrePage == [kv |-> [i \in 1..Len(SortBytes({q[2] : q \in DOMAIN mem.kv})) |->
              LET k == SortBytes({q[2] : q \in DOMAIN mem.kv})[i] r == mem.kv[<<B, k>>] IN
              [k |-> k, st |-> IF r.del THEN "deleted" ELSE IF r.ttl > 0 THEN "expired" ELSE "live"]]]

\* ---------------------------------------------------------------- the machine
Calls == CASE Kind = "list" -> ListCalls [] Kind = "set" -> SetCalls [] Kind = "zset" -> ZCalls [] Kind = "kvpage" -> PageCalls
Answer(c) == CASE Kind = "list" -> ListAnswer(c) [] Kind = "set" -> SetAnswer(c) [] Kind = "zset" -> ZAnswer(c)
               [] Kind = "kvpage" -> [err |-> FALSE]

Full(c) == c @@ Answer(c)     \* the call record completed with the specification's answer

\* pre-state in replayable form
PreList == CurList
PreZ    == [i \in 1..Cardinality(DOMAIN CurZ) |->
              [k |-> Z!ZOrder(CurZ)[i], s |-> CurZ[Z!ZOrder(CurZ)[i]].s, v |-> CurZ[Z!ZOrder(CurZ)[i]].v]]

Pre == CASE Kind = "list" -> [list |-> PreList]
         [] Kind = "set"  -> [sets |-> [k \in SK |-> SetToSeq(SetOf(mem, B, k))]]
         [] Kind = "zset" -> [z |-> PreZ]
         [] Kind = "kvpage" -> PrePage

GInit ==
  /\ status = "open" /\ log = <<>> /\ tx = NoTx /\ notes = {} /\ out = <<>>
  /\ IF Kind = "kvpage" THEN mem \in PStates ELSE mem = Empty

\* One call, evaluated on the committed state as a single-operation
\* transaction: the successor is what Nuts.tla says the commit produces.
Step(c) ==
  LET a == Full(c)
      post == IF a.op \in Muts THEN ApplyRecs(mem, Recs(a)) ELSE mem IN
  /\ mem' = post
  /\ out' = [kind |-> Kind, pre |-> Pre, call |-> c, expect |-> Answer(c)]
  /\ PrintT(<<"GEN", ToJson(out')>>)
  /\ UNCHANGED <<status, log, tx, notes>>

GNext == \E c \in Calls : Step(c)

GSpec == GInit /\ [][GNext]_gvars

\* the bound: list length / set sizes / zset size
GBound ==
  CASE Kind = "list" -> Len(CurList) <= MaxLen
    [] Kind = "set"  -> \A k \in SK : Cardinality(SetOf(mem, B, k)) <= MaxLen
    [] Kind = "zset" -> Cardinality(DOMAIN CurZ) <= MaxLen
    [] Kind = "kvpage" -> TRUE

GView == mem

GKeys3 == {<<>>, <<97>>, <<98>>}
GKeys2 == {<<>>, <<97>>}
GScores3 == {0 - 1, 0, 1}

\* sanity invariants of the semantics modules on every reachable state
GInv ==
  CASE Kind = "list" ->
         /\ \A s \in Range2(Len(CurList)), e \in Range2(Len(CurList)) :
              LET r == L!LRangeOf(CurList, s, e) IN Len(r) <= Len(CurList)
         /\ L!LRangeOf(CurList, 0, 0 - 1) = CurList
    [] Kind = "set"  -> TRUE
    [] Kind = "kvpage" -> TRUE
    [] Kind = "zset" ->
         LET o == Z!ZOrder(CurZ) IN
         /\ \A i \in 1..Len(o) : Z!ZRankOf(CurZ, o[i]) = i
         /\ Z!ZRankRange(CurZ, 1, 0 - 1) = o
=============================================================================
