------------------------------ MODULE SetSpec -------------------------------
(* Mathematical sets.  A missing key and an empty set are the same          *)
(* observation (the model does not track key existence), so wherever one    *)
(* of the operand sets is empty an error without effect is also admitted.   *)
EXTENDS Bytes, Integers

SAdd(s, items) == s \cup items
SRem(s, items) == s \ items
SIsMember(s, x) == x \in s
SAreMembers(s, items) == items \subseteq s
SCard(s) == Cardinality(s)
SDiff(s1, s2) == s1 \ s2
SUnion(s1, s2) == s1 \cup s2
\* SMOVE src dst x: only if x \in src; then both change atomically.
SMoveSrc(src, x) == src \ {x}
SMoveDst(src, dst, x) == IF x \in src THEN dst \cup {x} ELSE dst
=============================================================================
