--------------------------- MODULE ApiTotalTrace ----------------------------
(* Validates the recording of the ApiTotal replayer: one line per call with *)
(* the outcome class observed under recover().                              *)
EXTENDS ApiTotal, Integers

CONSTANTS TraceFile, DiagLine, Dev
TLog == ndJsonDeserialize(TraceFile)
VARIABLE l
Ev == TLog[l]

TInit == out = <<>> /\ l = 1 /\ TLCSet(1, 1)

\* the call returned, and so did the Commit that followed it
Returned == ~Ev.panic /\ ~Ev.commitpanic /\ ~Ev.hang
\* C12: calls on a finished transaction or a closed database return an error
LifecycleOK == (Finished(Ev.life) \/ (Ev.m \in DBMethods /\ Ev.life = "closed")) => Ev.err

TNext ==
  /\ l <= Len(TLog)
  /\ Ev.m \in Methods /\ (Ev.m # "Seq" => Len(Ev.args) = Len(Sig[Ev.m]))
  /\ Returned /\ LifecycleOK
  /\ l' = l + 1 /\ UNCHANGED out

TraceSpec == TInit /\ [][TNext]_<<out, l>>
HighWater == TLCSet(1, IF TLCGet(1) < l THEN l ELSE TLCGet(1)) /\
             ((l = Len(TLog) + 1) => PrintT(<<"TRACE_NOTES", {}>>))
TraceAccepted ==
  /\ PrintT(<<"TRACE_REACHED", TLCGet(1) - 1, "OF", Len(TLog)>>)
  /\ TLCGet(1) - 1 = Len(TLog)
=============================================================================
