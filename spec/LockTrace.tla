----------------------------- MODULE LockTrace ------------------------------
(***************************************************************************)
(* Trace validation of the lock and shared-access events recorded by the   *)
(* verif hooks (verifLock is called while db.mu is held, verifAccess at    *)
(* every use of a shared object, both stamped with a process-wide atomic   *)
(* sequence number) against the RWMutex rules and the lockset monitor of   *)
(* LockCore.tla.  A stream is accepted iff every acquisition is one the    *)
(* mutex allows in the state reached so far, every release is by a holder, *)
(* and no shared object becomes racy in the Eraser sense.                  *)
(***************************************************************************)
EXTENDS LockCore, Json, Integers

CONSTANTS TraceFile, DiagLine, Dev
TLog == ndJsonDeserialize(TraceFile)

TraceDBs == {TLog[i].db : i \in {j \in 1..Len(TLog) : "db" \in DOMAIN TLog[j]}} \cup {"-"}
TraceObjs == {<<TLog[i].obj, TLog[i].db>> : i \in {j \in 1..Len(TLog) : TLog[j].ev = "access"}}

VARIABLES l, mergers, notes
tvars == <<mu, cand, users, l, mergers, notes>>
Ev == TLog[l]

F_MergeUnlocked == "F-C17-1"

Fresh ==
  /\ mu = [d \in DB |-> [w |-> None, r |-> {}, pend |-> {}]]
  /\ cand = [o \in TraceObjs |-> [top |-> TRUE, s |-> {}]]
  /\ users = [o \in TraceObjs |-> {}]
  /\ mergers = {}

TInit == Fresh /\ l = 1 /\ notes = {} /\ TLCSet(1, 1)

Is(e) == l <= Len(TLog) /\ Ev.ev = e /\ l' = l + 1

TrReset ==
  /\ Is("reset")
  /\ mu' = [d \in DB |-> [w |-> None, r |-> {}, pend |-> {}]]
  /\ cand' = [o \in TraceObjs |-> [top |-> TRUE, s |-> {}]]
  /\ users' = [o \in TraceObjs |-> {}]
  /\ mergers' = {} /\ UNCHANGED notes

TrAcq ==
  /\ Is("acq")
  /\ IF Ev.w THEN AcquireW(Ev.g, Ev.db) ELSE AcquireRObs(Ev.g, Ev.db)
  /\ NoAccess /\ UNCHANGED <<mergers, notes>>

TrRel ==
  /\ Is("rel")
  /\ IF Ev.w THEN ReleaseW(Ev.g, Ev.db) ELSE ReleaseR(Ev.g, Ev.db)
  /\ NoAccess /\ UNCHANGED <<mergers, notes>>

\* DB.Close takes the write lock for its whole body
TrClose ==
  /\ Is("close")
  /\ mu[Ev.db].w = None /\ mu[Ev.db].r = {}
  /\ UNCHANGED <<mu, cand, users, mergers, notes>>

\* a shared access: the object must not become racy - unless (known finding)
\* one of its users is a Merge goroutine, which reads the indexes and sets
\* isMerging without holding the lock
TrAccess ==
  /\ Is("access")
  /\ Access(Ev.g, {<<<<Ev.obj, Ev.db>>, Ev.w>>})
  /\ mergers' = IF Ev.merger THEN mergers \cup {Ev.g} ELSE mergers
  /\ LET o == <<Ev.obj, Ev.db>> IN
     \/ ~RacyWith(o, users', cand') /\ UNCHANGED notes
     \/ /\ RacyWith(o, users', cand') /\ F_MergeUnlocked \in Dev
        /\ \E u \in users'[o] : u[1] \in mergers'
        /\ notes' = notes \cup {F_MergeUnlocked}
  /\ UNCHANGED mu

\* a report of Go's race detector (an extra event source for code without
\* access hooks): never admitted, except - known finding - when the racing
\* code is Merge
TrRace ==
  /\ Is("race")
  /\ F_MergeUnlocked \in Dev /\ Ev.merger
  /\ notes' = notes \cup {F_MergeUnlocked}
  /\ UNCHANGED <<mu, cand, users, mergers>>

TNext == TrReset \/ TrAcq \/ TrRel \/ TrClose \/ TrAccess \/ TrRace
TraceSpec == TInit /\ [][TNext]_tvars

HighWater ==
  /\ TLCSet(1, IF TLCGet(1) < l THEN l ELSE TLCGet(1))
  /\ (DiagLine # 0 /\ l = DiagLine) => PrintT(<<"DIAG", l, [mu |-> mu, cand |-> cand, users |-> users]>>)
  /\ (l = Len(TLog) + 1) => PrintT(<<"TRACE_NOTES", IF notes = {} THEN {} ELSE {<<l, notes>>}>>)
TraceAccepted ==
  /\ PrintT(<<"TRACE_REACHED", TLCGet(1) - 1, "OF", Len(TLog)>>)
  /\ TLCGet(1) - 1 = Len(TLog)
=============================================================================
