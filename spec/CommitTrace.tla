----------------------------- MODULE CommitTrace -----------------------------
(***************************************************************************)
(* Conformance of the real Tx.Commit to the protocol of Commit.tla.  The   *)
(* verifFS hook reports every mutation of a data file (create, write with  *)
(* its bytes, sync) and the recording wrapper reports the start (number of *)
(* pending records, SyncEnable, tx id) and the end (error or not) of every *)
(* Commit call.  Each event must be the next step of Commit.tla:           *)
(*   - a commit writes its records one by one, record i after record i-1,  *)
(*     each at the byte offset right after the bytes counted so far;       *)
(*   - exactly the last record carries the Committed status;               *)
(*   - with SyncEnable every written record is synced before the next one  *)
(*     is written and before Commit returns;                               *)
(*   - a file is created only between two records of a commit (rotation);  *)
(*   - Commit returns nil only when every record has been written;         *)
(*   - stored transaction ids are pairwise different.                      *)
(* Injected faults are events too (the model's Fault* actions).            *)
(***************************************************************************)
EXTENDS Commit, Json, Integers

CONSTANTS TraceFile, DiagLine, Dev
TLog == ndJsonDeserialize(TraceFile)

VARIABLES l,
          fname,     \* file names, parallel to `files`
          cnt,       \* bytes counted as written per file (-1: unknown, first write defines it)
          plen,      \* length of the written, not yet counted record
          seen       \* stored tx ids of the commits so far
tvars == <<vars, l, fname, cnt, plen, seen>>
Ev == TLog[l]
Is(e) == l <= Len(TLog) /\ Ev.ev = e /\ l' = l + 1

Epoch(name, c) ==     \* a new epoch: one active file (fill level c, -1 = unknown)
  /\ files' = <<[recs |-> <<>>, woff |-> 0, created |-> TRUE]>> /\ active' = 1 /\ cur' = Idle
  /\ fname' = <<name>> /\ cnt' = <<c>> /\ plen' = 0
  /\ ntx' = 0 /\ nrec' = [t \in Tx |-> 0] /\ ids' = [t \in Tx |-> t]
  /\ returned' = {} /\ failed' = {} /\ mem' = {} /\ down' = "no" /\ rec' = [st |-> "none", s |-> {}]

TInit ==
  /\ Init /\ l = 1 /\ fname = <<"?">> /\ cnt = <<0 - 1>> /\ plen = 0 /\ seen = {} /\ TLCSet(1, 1)

\* a database was opened (or reopened, or a Merge ended): forget the files
TrEpoch ==
  /\ Is("epoch") /\ cur = Idle /\ Ev.sync = SyncOn
  /\ Epoch("?", 0 - 1) /\ seen' = IF Ev.fresh THEN {} ELSE seen

\* Commit entered with n pending records (n > 0; an empty commit writes nothing)
TrBegin ==
  /\ Is("begin") /\ cur = Idle /\ Ev.n > 0 /\ Ev.n <= MaxRecs /\ ntx < MaxTx
  /\ Ev.id \notin seen                                      \* TxIdUnique
  /\ LET t == ntx + 1 IN
     /\ nrec' = [nrec EXCEPT ![t] = Ev.n] /\ ntx' = t /\ ids' = ids
     /\ cur' = [t |-> t, n |-> Ev.n, next |-> 1, id |-> t, unsynced |-> FALSE]
  /\ seen' = seen \cup {Ev.id}
  /\ UNCHANGED <<files, active, returned, failed, mem, down, rec, fname, cnt, plen>>

\* a data file is created: rotation inside a commit
TrCreate ==
  /\ Is("create")
  /\ RotateBody
  /\ fname' = Append(fname, Ev.file) /\ cnt' = Append(cnt, 0)
  /\ UNCHANGED <<plen, seen>>

OffsetOK == fname[active] \in {Ev.file, "?"} /\ (cnt[active] = 0 - 1 \/ Ev.off = cnt[active])
\* a record is written completely
TrWrite ==
  /\ Is("write") /\ ~Ev.injected
  /\ OffsetOK
  /\ Ev.committed = (cur.next = cur.n)                      \* the mark is on the last record only
  /\ WriteBody
  /\ fname' = [fname EXCEPT ![active] = Ev.file]
  /\ cnt' = [cnt EXCEPT ![active] = IF SyncOn THEN (IF @ = 0 - 1 THEN Ev.off ELSE @) ELSE Ev.off + Ev.len]
  /\ plen' = IF SyncOn THEN Ev.len ELSE 0
  /\ UNCHANGED seen

TrSync ==
  /\ Is("sync") /\ ~Ev.injected /\ SyncOn
  /\ fname[active] = Ev.file
  /\ SyncRec
  /\ cnt' = [cnt EXCEPT ![active] = @ + plen] /\ plen' = 0
  /\ UNCHANGED <<fname, seen>>

\* without SyncEnable the only Sync is the one rotateActiveFile issues for a
\* memory-mapped file before closing it: no protocol step
TrSyncNoop ==
  /\ Is("sync") /\ ~Ev.injected /\ ~SyncOn
  /\ UNCHANGED <<vars, fname, cnt, plen, seen>>

\* injected faults
TrFaultWrite ==
  /\ Is("write") /\ Ev.injected /\ OffsetOK
  /\ FaultWriteBody
  /\ (files' = files) = (Ev.len = 0)                        \* nothing, or a torn prefix, reached the file
  /\ UNCHANGED <<fname, cnt, plen, seen>>
TrFaultSync ==
  /\ Is("sync") /\ Ev.injected /\ SyncOn
  /\ FaultSync
  /\ plen' = 0 /\ UNCHANGED <<fname, cnt, seen>>
\* without SyncEnable: the Sync that rotation issues for a memory-mapped file
\* fails, the commit ends before the next file is created
TrFaultRotSync ==
  /\ Is("sync") /\ Ev.injected /\ ~SyncOn
  /\ FaultRotateBody
  /\ UNCHANGED <<fname, cnt, plen, seen>>
TrFaultCreate ==
  /\ Is("createfail")
  /\ FaultRotateBody
  /\ UNCHANGED <<fname, cnt, plen, seen>>

\* Commit returned
TrEnd ==
  /\ Is("end")
  /\ IF Ev.err THEN cur = Idle /\ UNCHANGED <<vars>>        \* the fault action already ended it
     ELSE CommitReturn
  /\ UNCHANGED <<fname, cnt, plen, seen>>
\* Commit returned an error before writing anything (oversized entry, ...)
TrEndEarly ==
  /\ Is("end") /\ Ev.err /\ cur # Idle /\ cur.next = 1 /\ ~cur.unsynced
  /\ failed' = failed \cup {cur.t} /\ cur' = Idle
  /\ UNCHANGED <<files, active, ntx, nrec, ids, returned, mem, down, rec, fname, cnt, plen, seen>>

\* the model is bounded: start over when its transaction budget is used up
TrRenew ==
  /\ l <= Len(TLog) /\ Ev.ev = "begin" /\ cur = Idle /\ ntx = MaxTx
  /\ Epoch(fname[active], cnt[active]) /\ seen' = seen /\ l' = l

TNext == TrEpoch \/ TrBegin \/ TrCreate \/ TrWrite \/ TrSync \/ TrSyncNoop \/ TrFaultWrite \/ TrFaultSync \/ TrFaultRotSync \/ TrFaultCreate
         \/ TrEnd \/ TrEndEarly \/ TrRenew
TraceSpec == TInit /\ [][TNext]_tvars

HighWater ==
  /\ TLCSet(1, IF TLCGet(1) < l THEN l ELSE TLCGet(1))
  /\ (DiagLine # 0 /\ l = DiagLine) => PrintT(<<"DIAG", l, [cur |-> cur, active |-> active, fname |-> fname, cnt |-> cnt, plen |-> plen]>>)
  /\ (l = Len(TLog) + 1) => PrintT(<<"TRACE_NOTES", {}>>)
TraceAccepted ==
  /\ PrintT(<<"TRACE_REACHED", TLCGet(1) - 1, "OF", Len(TLog)>>)
  /\ TLCGet(1) - 1 = Len(TLog)
=============================================================================
