-------------------------------- MODULE Merge --------------------------------
(***************************************************************************)
(* Protocol grain of DB.Merge (C15, C16): data files holding key/value     *)
(* records (put / delete, committed or left behind by a failed commit) and *)
(* the operation records of one list (push / pop); an in-memory index that *)
(* points at the live record of every key; and Merge as the code performs  *)
(* it - for every data file in ascending order: decide which of its        *)
(* records are live, rewrite those through a new committed transaction     *)
(* into a new file, remove the file - with a process crash possible        *)
(* between any two steps and in the middle of a rewrite.                   *)
(*                                                                         *)
(* Properties: MergePreserves (C15: the process and a reopen serve after   *)
(* Merge what they served before), MergeCrashSafe (C16: a reopen after a   *)
(* crash inside Merge serves what was served before Merge), WriteDurable   *)
(* (C15: a write made after Merge survives a reopen).                      *)
(*                                                                         *)
(* Switches (constant Sw), each of which must make TLC produce a           *)
(* counterexample:                                                         *)
(*   "Lists"              the database holds list records: Merge keeps a   *)
(*                        push whose value is still in the list, drops     *)
(*                        pops, and the rewrite's commit re-applies the    *)
(*                        pushes (known findings F-C15-1, F-C16-1)         *)
(*   "RewriteUncommitted" a record is dropped only when the index points   *)
(*                        at a newer one (pre d74ab47)                     *)
(*   "ActiveRemoved"      the active file is removed without replacement   *)
(*                        (pre 7d899a5)                                    *)
(*   "DelayedRewrite"     live records are collected over several files    *)
(*                        and rewritten later, files removed at once       *)
(*                        (seeded change C16)                              *)
(***************************************************************************)
EXTENDS Naturals, Sequences, FiniteSets, TLC

CONSTANTS Keys,       \* key/value keys
          MaxUser,    \* user writes before Merge
          Cap,        \* records per data file
          Sw

NoPos == [f |-> 0, p |-> 0]

VARIABLES
  files,     \* Seq of [recs: Seq(rec), gone: BOOLEAN]; rec = [kind, k, v, ok]
  active,    \* index of the file user writes go to
  idx,       \* key -> position [f, p] of its live record (NoPos: none)
  lst,       \* the in-memory list
  nuser,     \* user writes so far
  ver,       \* next fresh value
  phase,     \* "user" | "merge" | "after" | "down"
  todo,      \* files still to be merged (ascending)
  pending,   \* records waiting to be rewritten
  half,      \* TRUE while a rewrite transaction is only partly on disk
  pre,       \* observation when Merge started
  crashedIn, \* phase in which the process died ("none": it did not)
  afterPut   \* key/value written after Merge (or <<>>)

vars == <<files, active, idx, lst, nuser, ver, phase, todo, pending, half, pre, crashedIn, afterPut>>

Rec(kind, k, v, ok) == [kind |-> kind, k |-> k, v |-> v, ok |-> ok]
Lists == "Lists" \in Sw

-----------------------------------------------------------------------------
(* observations *)

\* what the running process serves
MemKV == [k \in {x \in Keys : idx[x] # NoPos /\ files[idx[x].f].recs[idx[x].p].kind = "put"} |->
            files[idx[k].f].recs[idx[k].p].v]
ObsMem == [kv |-> MemKV, ls |-> lst]

\* what a reopen rebuilds: the committed records of the existing files, in order
AllRecs == LET F(acc, i) == IF files[i].gone THEN acc ELSE acc \o SelectSeq(files[i].recs, LAMBDA r : r.ok)
               RECURSIVE Go(_, _)
               Go(acc, i) == IF i > Len(files) THEN acc ELSE Go(F(acc, i), i + 1)
           IN Go(<<>>, 1)
\* key/value part: the last committed record of every key decides - the last
\* one in the last existing file that has one.  (Written on `files` directly
\* and without recursion: TLC re-evaluates LET definitions and operator
\* arguments at every use and keeps nested function constructors lazy, which
\* makes a record-by-record fold over the flattened log exponential.)
IsKV(r, k) == r.ok /\ r.k = k /\ r.kind \in {"put", "del"}
PosIn(f, k) == {p \in 1..Len(files[f].recs) : IsKV(files[f].recs[p], k)}
FilesOf(k) == {f \in 1..Len(files) : ~files[f].gone /\ PosIn(f, k) # {}}
MaxOf(S) == CHOOSE x \in S : \A y \in S : y <= x
LastRec(k) == LET f == MaxOf(FilesOf(k)) IN files[f].recs[MaxOf(PosIn(f, k))]
DiskKV == [k \in {x \in Keys : FilesOf(x) # {} /\ LastRec(x).kind = "put"} |-> LastRec(k).v]
\* list part: the operation records are applied in order
RECURSIVE ApplyLs(_, _)
ApplyLs(ls, rs) ==
  IF rs = <<>> THEN ls
  ELSE LET r == Head(rs) IN
       ApplyLs(CASE r.kind = "push" -> Append(ls, r.v)
                 [] r.kind = "pop"  -> (IF ls = <<>> THEN ls ELSE Tail(ls))
                 [] OTHER -> ls,
               Tail(rs))
ObsDisk == [kv |-> DiskKV, ls |-> IF Lists THEN ApplyLs(<<>>, AllRecs) ELSE <<>>]

-----------------------------------------------------------------------------
Init ==
  /\ files = <<[recs |-> <<>>, gone |-> FALSE]>> /\ active = 1
  /\ idx = [k \in Keys |-> NoPos] /\ lst = <<>> /\ nuser = 0 /\ ver = 1
  /\ phase = "user" /\ todo = <<>> /\ pending = <<>> /\ half = FALSE
  /\ pre = [kv |-> <<>>, ls |-> <<>>] /\ crashedIn = "none" /\ afterPut = <<>>

\* append one record for the user (a committed single-record transaction, or
\* the record a failed commit leaves behind), rotating when the file is full
Room == Len(files[active].recs) < Cap /\ ~files[active].gone
AppendRec(r) ==
  IF Room THEN /\ files' = [files EXCEPT ![active].recs = Append(@, r)]
               /\ active' = active
          ELSE /\ files' = Append(files, [recs |-> <<r>>, gone |-> FALSE])
               /\ active' = Len(files) + 1
PosOfAppend == IF Room THEN [f |-> active, p |-> Len(files[active].recs) + 1] ELSE [f |-> Len(files) + 1, p |-> 1]

UserWrite ==
  /\ phase = "user" /\ nuser < MaxUser
  /\ \/ \E k \in Keys : /\ AppendRec(Rec("put", k, ver, TRUE)) /\ idx' = [idx EXCEPT ![k] = PosOfAppend] /\ lst' = lst
     \/ \E k \in Keys : /\ idx[k] # NoPos
                        /\ AppendRec(Rec("del", k, 0, TRUE)) /\ idx' = [idx EXCEPT ![k] = PosOfAppend] /\ lst' = lst
     \/ \E k \in Keys : /\ AppendRec(Rec("put", k, ver, FALSE)) /\ UNCHANGED <<idx, lst>>       \* failed commit
     \/ /\ Lists /\ AppendRec(Rec("push", "l", ver, TRUE)) /\ lst' = Append(lst, ver) /\ idx' = idx
     \/ /\ Lists /\ lst # <<>> /\ AppendRec(Rec("pop", "l", 0, TRUE)) /\ lst' = Tail(lst) /\ idx' = idx
  /\ nuser' = nuser + 1 /\ ver' = ver + 1
  /\ UNCHANGED <<phase, todo, pending, half, pre, crashedIn, afterPut>>

\* DB.Merge starts: at least two files, all of them are to be merged
Existing == SelectSeq([i \in 1..Len(files) |-> i], LAMBDA i : ~files[i].gone)
MergeBegin ==
  /\ phase = "user" /\ Len(Existing) >= 2
  /\ phase' = "merge" /\ todo' = Existing /\ pending' = <<>> /\ pre' = ObsMem
  /\ UNCHANGED <<files, active, idx, lst, nuser, ver, half, crashedIn, afterPut>>

\* which records of file f are rewritten
Newer(a, b) == a.f > b.f \/ (a.f = b.f /\ a.p > b.p)
Live(f, p) ==
  LET r == files[f].recs[p] IN
  CASE r.kind = "put" -> IF "RewriteUncommitted" \in Sw
                         THEN idx[r.k] # NoPos /\ ~Newer(idx[r.k], [f |-> f, p |-> p]) /\ files[idx[r.k].f].recs[idx[r.k].p].kind = "put"
                         ELSE idx[r.k] = [f |-> f, p |-> p]
    [] r.kind = "push" -> \E i \in 1..Len(lst) : lst[i] = r.v
    [] OTHER -> FALSE                        \* deletes and pops are filtered
LiveRecs(f) == LET ps == SelectSeq([p \in 1..Len(files[f].recs) |-> p], LAMBDA p : Live(f, p))
               IN [i \in 1..Len(ps) |-> [files[f].recs[ps[i]] EXCEPT !.ok = TRUE]]

\* scan the next file
Scan ==
  /\ phase = "merge" /\ todo # <<>> /\ ~half
  /\ pending' = pending \o LiveRecs(Head(todo))
  /\ phase' = "rewrite"
  /\ UNCHANGED <<files, active, idx, lst, nuser, ver, todo, half, pre, crashedIn, afterPut>>

\* reWriteData: a new file becomes the active one, the pending records are
\* committed into it (first half on disk: nothing is visible yet)
MustRewrite == IF "DelayedRewrite" \in Sw THEN Len(todo) = 1 \/ Len(pending) >= Cap ELSE TRUE
RewriteHalf ==
  /\ phase = "rewrite" /\ pending # <<>> /\ MustRewrite /\ ~half
  /\ files' = Append(files, [recs |-> [i \in 1..Len(pending) |-> [pending[i] EXCEPT !.ok = FALSE]], gone |-> FALSE])
  /\ active' = Len(files) + 1 /\ half' = TRUE
  /\ UNCHANGED <<idx, lst, nuser, ver, phase, todo, pending, pre, crashedIn, afterPut>>
RewriteCommit ==
  /\ phase = "rewrite" /\ half
  /\ files' = [files EXCEPT ![active].recs = [i \in 1..Len(@) |-> [@[i] EXCEPT !.ok = TRUE]]]
  /\ idx' = [k \in Keys |-> LET ps == {i \in 1..Len(pending) : pending[i].kind = "put" /\ pending[i].k = k} IN
                            IF ps = {} THEN idx[k] ELSE [f |-> active, p |-> CHOOSE i \in ps : \A j \in ps : j <= i]]
  \* the commit applies the records to the in-memory structures: pushes again
  /\ lst' = lst \o [i \in 1..Len(SelectSeq(pending, LAMBDA r : r.kind = "push")) |-> SelectSeq(pending, LAMBDA r : r.kind = "push")[i].v]
  /\ pending' = <<>> /\ half' = FALSE /\ phase' = "remove"
  /\ UNCHANGED <<active, nuser, ver, todo, pre, crashedIn, afterPut>>
SkipRewrite ==
  /\ phase = "rewrite" /\ ~half /\ (pending = <<>> \/ ~MustRewrite)
  /\ phase' = "remove"
  /\ UNCHANGED <<files, active, idx, lst, nuser, ver, todo, pending, half, pre, crashedIn, afterPut>>

\* os.Remove of the merged file; the active file is replaced when it goes
Remove ==
  /\ phase = "remove"
  /\ LET f == Head(todo) IN
     IF f = active /\ "ActiveRemoved" \notin Sw
     THEN /\ files' = Append([files EXCEPT ![f].gone = TRUE], [recs |-> <<>>, gone |-> FALSE])
          /\ active' = Len(files) + 1
     ELSE /\ files' = [files EXCEPT ![f].gone = TRUE] /\ active' = active
  /\ todo' = Tail(todo)
  /\ phase' = IF Tail(todo) = <<>> THEN "after" ELSE "merge"
  /\ UNCHANGED <<idx, lst, nuser, ver, pending, half, pre, crashedIn, afterPut>>

\* one write after Merge (it must be as durable as any other)
WriteAfter ==
  /\ phase = "after" /\ afterPut = <<>>
  /\ \E k \in Keys :
       /\ IF files[active].gone
          THEN files' = [files EXCEPT ![active].recs = Append(@, Rec("put", k, ver, TRUE))]     \* goes to the removed file
          ELSE AppendRec(Rec("put", k, ver, TRUE))
       /\ active' = IF files[active].gone \/ Room THEN active ELSE Len(files) + 1
       /\ idx' = [idx EXCEPT ![k] = IF files[active].gone THEN [f |-> active, p |-> Len(files[active].recs) + 1] ELSE PosOfAppend]
       /\ afterPut' = <<k, ver>>
  /\ ver' = ver + 1
  /\ UNCHANGED <<lst, nuser, phase, todo, pending, half, pre, crashedIn>>

Crash ==
  /\ phase \notin {"down"}
  /\ crashedIn' = phase /\ phase' = "down"
  /\ UNCHANGED <<files, active, idx, lst, nuser, ver, todo, pending, half, pre, afterPut>>

Next == UserWrite \/ MergeBegin \/ Scan \/ RewriteHalf \/ RewriteCommit \/ SkipRewrite \/ Remove \/ WriteAfter \/ Crash
Spec == Init /\ [][Next]_vars

-----------------------------------------------------------------------------
\* the index and the disk agree whenever no Merge is in progress (sanity of the model)
Agree == phase = "user" => ObsMem = ObsDisk
\* C15
MergePreserves == (phase = "after" /\ afterPut = <<>>) => (ObsMem = pre /\ ObsDisk = pre)
\* C16: what a reopen serves after a crash inside Merge
MergeCrashSafe == (phase = "down" /\ crashedIn \in {"merge", "rewrite", "remove"}) => ObsDisk = pre
\* the same, stated on the running system: between any two steps of Merge the
\* files on disk rebuild what was served when Merge started (this is the form
\* MergeTrace.tla evaluates on the files the real Merge leaves behind)
MidMergeSafe == phase \in {"merge", "rewrite", "remove"} => ObsDisk = pre
\* C15: a write after Merge is on disk
WriteDurable == (afterPut # <<>>) => (afterPut[1] \in DOMAIN ObsDisk.kv /\ ObsDisk.kv[afterPut[1]] = afterPut[2])
TypeOK == active \in 1..Len(files) /\ phase \in {"user", "merge", "rewrite", "remove", "after", "down"}
=============================================================================
