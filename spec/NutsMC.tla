------------------------------- MODULE NutsMC -------------------------------
(***************************************************************************)
(* Bounded model of Nuts.tla: every call record over small constants, a    *)
(* clock, and the properties that quantify over histories:                 *)
(*   ReopenInv        (C08)  Replay(log) serves what the process serves    *)
(*   NoEffect         (C12)  a transaction that ends without commit        *)
(*                           changes nothing, now or after reopen          *)
(*   SerialView       (C13)  a committed transaction leaves its view       *)
(*   BucketIsolation  (C04)  a commit changes only the buckets it wrote    *)
(*   MergePreserves   (C15)  Merge changes nothing                         *)
(* Deviation switches (constant Dev of Nuts, and UniqueIds here) make TLC  *)
(* produce the counterexamples of the recorded defects.                    *)
(***************************************************************************)
EXTENDS Nuts

CONSTANTS KvB, KvK, Vals, LsB, LsK, StB, StK, ZsB, ZsK,   \* universes
          TxIds, UniqueIds, MaxTx, MaxOps, MaxClock

VARIABLES clock, ntx, last, call

mvars == <<vars, clock, ntx, last, call>>

Idx == {0 - 2, 0 - 1, 0, 1, 2}

KvCalls ==
  [op : {"put"}, b : KvB, k : KvK, v : Vals, ttl : {0, 1}, tsLo : {clock}, tsHi : {clock}, err : {FALSE}]
  \cup [op : {"del"}, b : KvB, k : KvK, err : {FALSE}]

LsCalls ==
  [op : {"rpush", "lpush"}, b : LsB, k : LsK, vals : {<<v>> : v \in Vals}, err : {FALSE}]
  \cup [op : {"lpop", "rpop"}, b : LsB, k : LsK, res : Vals \cup {""}, err : BOOLEAN]
  \cup [op : {"lrem"}, b : LsB, k : LsK, cnt : {0 - 1, 0, 1}, v : Vals, n : 0..2, err : BOOLEAN]
  \cup [op : {"lset"}, b : LsB, k : LsK, i : {0 - 1, 0, 1}, v : Vals, err : BOOLEAN]
  \cup [op : {"ltrim"}, b : LsB, k : LsK, s : {0, 1}, e : {0 - 1, 0}, err : BOOLEAN]

StCalls ==
  [op : {"sadd", "srem"}, b : StB, k : StK, vals : {<<v>> : v \in Vals}, err : {FALSE}]
  \cup [op : {"spop"}, b : StB, k : StK, res : Vals \cup {""}, err : BOOLEAN]
  \cup [op : {"smove"}, b : StB, k : StK, b2 : StB, k2 : StK, v : Vals, ok : BOOLEAN, err : BOOLEAN]

ZNodes == [k : ZsK, s : {0, 1}, v : Vals]
ZsCalls ==
  [op : {"zadd"}, b : ZsB, k : ZsK, s : {0, 1}, v : Vals, err : {FALSE}]
  \cup [op : {"zrem"}, b : ZsB, k : ZsK, err : BOOLEAN]
  \cup [op : {"zremrank"}, b : ZsB, s : {1, 0 - 1}, e : {1, 0 - 1}, err : BOOLEAN]
  \cup [op : {"zpopmax", "zpopmin"}, b : ZsB, nil : BOOLEAN, node : ZNodes, err : BOOLEAN]

MutCalls == KvCalls \cup LsCalls \cup StCalls \cup ZsCalls

MCInit == Init /\ clock = 0 /\ ntx = 0 /\ last = "init" /\ call = [op |-> "none"]

FreshId == IF UniqueIds THEN {TxIds[ntx + 1]} ELSE {TxIds[i] : i \in 1..Len(TxIds)}

MCBegin ==
  /\ ntx < MaxTx
  /\ \E w \in BOOLEAN, id \in FreshId : Begin([op |-> "begin", w |-> w, id |-> id, err |-> (status # "open")])
  /\ ntx' = IF status = "open" THEN ntx + 1 ELSE ntx
  /\ last' = "begin" /\ UNCHANGED <<clock, call>>

MCMutate ==
  /\ Len(tx.recs) < MaxOps
  /\ \E a \in MutCalls : (Mutate(a) \/ MutateRO(a) \/ SMoveDeviant(a)) /\ call' = a
  /\ last' = "mutate" /\ UNCHANGED <<clock, ntx>>

MCCommit ==
  /\ \/ CommitOK([op |-> "commit", err |-> FALSE]) /\ last' = "commit"
     \/ \E n \in 0..MaxOps : CommitFail([op |-> "commit", err |-> TRUE, nw |-> n]) /\ n < Len(tx.recs) /\ last' = "fail"
     \/ Rollback([op |-> "rollback"]) /\ last' = "rollback"
  /\ UNCHANGED <<clock, ntx, call>>

MCLife ==
  /\ \/ Close([op |-> "close", err |-> (status # "open")]) /\ last' = "close"
     \/ Open([op |-> "open", err |-> FALSE]) /\ last' = "open"
     \/ Merge([op |-> "merge", err |-> FALSE]) /\ last' = "merge"
  /\ UNCHANGED <<clock, ntx, call>>

Tick == clock < MaxClock /\ clock' = clock + 1 /\ last' = "tick" /\ UNCHANGED <<vars, ntx, call>>

MCNext == MCBegin \/ MCMutate \/ MCCommit \/ MCLife \/ Tick

MCSpec == MCInit /\ [][MCNext]_mvars

-----------------------------------------------------------------------------
\* C08
MCReopenInv == (status = "open" /\ tx.st = "none") => SameObs(Replay(log), mem, clock)

\* C12: a transaction that ends without a successful commit (rollback, failed
\* commit, or read-only) changes nothing for readers now or after reopen
NoEffect ==
  [][(tx.st # "none" /\ tx'.st = "none" /\ (last' \in {"fail", "rollback"} \/ tx.st = "ro"))
       => (SameObs(mem', tx.start, clock) /\ SameObs(Replay(log'), Replay(log), clock))]_mvars

\* C13: the committed state is the transaction's own view (start state plus
\* its operations in order)
SerialView ==
  [][(tx.st = "rw" /\ last' = "commit") => SameObs(mem', ApplyRecs(mem, tx.recs), clock)]_mvars

\* C13: every result returned inside a write transaction is the result of
\* the call on the transaction's own view
SerialResults ==
  [][(last' = "mutate" /\ tx.st = "rw") => MutOK(call', tx.view, {})]_mvars

\* C04: a commit changes only buckets the transaction wrote
BucketsWritten(rs) == {rs[i].b : i \in 1..Len(rs)}
ObsBucket(c, b) ==
  <<{x \in ObsKvLo(c, clock) : x[1] = b}, {x \in ObsLs(c) : x[1] = b},
    {x \in ObsSt(c) : x[1] = b}, {x \in ObsZs(c) : x[1] = b}>>
AllBuckets == KvB \cup LsB \cup StB \cup ZsB
BucketIsolation ==
  [][(last' = "commit") =>
       \A b \in AllBuckets \ BucketsWritten(tx.recs) : ObsBucket(mem', b) = ObsBucket(mem, b)]_mvars

\* C15
MergePreserves ==
  [][(last' = "merge") => (SameObs(mem', mem, clock) /\ SameObs(Replay(log'), Replay(log), clock))]_mvars

Bound == Len(log) <= MaxTx * MaxOps

\* `last` and `call` only label the step just taken (for the action properties)
MCView == <<vars, clock, ntx>>

\* constant values a cfg file cannot spell (tuples): used as  X <- name
KvK_1 == {<<1>>}
KvK_2 == {<<1>>, <<1, 2>>}
KvK_3 == {<<1>>, <<1, 2>>, <<2>>}
ZsK_2 == {<<>>, <<1>>}
Ids_3 == <<"t1", "t2", "t3">>
Ids_4 == <<"t1", "t2", "t3", "t4">>
None  == {}
=============================================================================
