------------------------------ MODULE ApiTotal ------------------------------
(***************************************************************************)
(* C20: no exported method of DB and Tx panics, whatever the arguments and *)
(* whatever the lifecycle state.  This module is an enumerator: for every  *)
(* method, every lifecycle state and every tuple of boundary-heavy         *)
(* argument tokens it emits one call descriptor (TLC prints it as JSON);   *)
(* the Go replayer executes each on the real library under recover() and   *)
(* records the outcome class; ApiTotalTrace accepts a recording iff every  *)
(* call returned (value or error) and the Commit that followed a           *)
(* successful mutating call returned too.  Calls on finished transactions  *)
(* and on a closed database must return an error (C12).                    *)
(***************************************************************************)
EXTENDS Naturals, Sequences, FiniteSets, TLC, Json

CONSTANT Full        \* TRUE: full argument products; FALSE: reduced (quick tier)

VARIABLE out

\* argument token domains, by parameter kind
BK  == {"b:k", "b:nil", "b:empty", "nb:k", "empty:k", "b:x|y", "a|b:k", "b:zz"}   \* (bucket, key) pairs
BKq == {"b:k", "b:nil", "nb:k", "empty:k", "b:x|y"}
V   == {"v", "nil", "empty", "a"}                                     \* "a": an element of the preloaded list and set
VS  == {"none", "v", "v,v", "nil", "empty,x|y", "a,b"}                \* variadic values
I   == {"min", "-5", "-1", "0", "1", "2", "5", "7", "max"}
Iq  == {"min", "-1", "0", "2", "7", "max"}
F   == {"nan", "+inf", "-inf", "0", "1.5", "-1"}
R   == {".*", "("}
T   == {"0", "1", "max"}
TS  == {"0", "now", "max"}
O   == {"nil", "zero", "lim1-excl", "limneg"}                          \* *GetByScoreRangeOptions
U   == {"0", "1", "max"}
BB  == {"b", "nb", "empty"}                                            \* bucket only

Dom(k) ==
  CASE k = "BK" -> IF Full THEN BK ELSE BKq
    [] k = "V" -> V [] k = "VS" -> VS
    [] k = "I" -> IF Full THEN I ELSE Iq
    [] k = "F" -> F [] k = "R" -> R [] k = "T" -> T [] k = "TS" -> TS
    [] k = "O" -> O [] k = "U" -> U [] k = "B" -> BB

Sig == [
  Put |-> <<"BK", "V", "T">>, PutWithTimestamp |-> <<"BK", "V", "T", "TS">>, Get |-> <<"BK">>, GetAll |-> <<"B">>,
  RangeScan |-> <<"BK", "V">>, PrefixScan |-> <<"BK", "I", "I">>, PrefixSearchScan |-> <<"BK", "R", "I", "I">>, Delete |-> <<"BK">>,
  FindTxIDOnDisk |-> <<"U", "U">>, FindOnDisk |-> <<"U", "U", "V", "V">>, FindLeafOnDisk |-> <<"I", "I", "V", "V">>,
  RPop |-> <<"BK">>, RPeek |-> <<"BK">>, RPush |-> <<"BK", "VS">>, LPush |-> <<"BK", "VS">>, LPop |-> <<"BK">>, LPeek |-> <<"BK">>,
  LSize |-> <<"BK">>, LRange |-> <<"BK", "I", "I">>, LRem |-> <<"BK", "I", "V">>, LSet |-> <<"BK", "I", "V">>, LTrim |-> <<"BK", "I", "I">>,
  SAdd |-> <<"BK", "VS">>, SRem |-> <<"BK", "VS">>, SAreMembers |-> <<"BK", "VS">>, SIsMember |-> <<"BK", "V">>, SMembers |-> <<"BK">>,
  SHasKey |-> <<"BK">>, SPop |-> <<"BK">>, SCard |-> <<"BK">>, SDiffByOneBucket |-> <<"BK", "V">>, SDiffByTwoBuckets |-> <<"BK", "BK">>,
  SMoveByOneBucket |-> <<"BK", "V", "V">>, SMoveByTwoBuckets |-> <<"BK", "BK", "V">>, SUnionByOneBucket |-> <<"BK", "V">>,
  SUnionByTwoBuckets |-> <<"BK", "BK">>,
  ZAdd |-> <<"BK", "F", "V">>, ZMembers |-> <<"B">>, ZCard |-> <<"B">>, ZCount |-> <<"B", "F", "F", "O">>, ZPopMax |-> <<"B">>, ZPopMin |-> <<"B">>,
  ZPeekMax |-> <<"B">>, ZPeekMin |-> <<"B">>, ZRangeByScore |-> <<"B", "F", "F", "O">>, ZRangeByRank |-> <<"B", "I", "I">>, ZRem |-> <<"BK">>,
  ZRemRangeByRank |-> <<"B", "I", "I">>, ZRank |-> <<"BK">>, ZRevRank |-> <<"BK">>, ZScore |-> <<"BK">>, ZGetByKey |-> <<"BK">>,
  Commit |-> <<>>, Rollback |-> <<>>,
  \* DB-level methods (life = state of the database)
  DBUpdate |-> <<"V">>, DBView |-> <<"V">>, DBBegin |-> <<"V">>, DBMerge |-> <<>>, DBBackup |-> <<"V">>, DBClose |-> <<>>]

\* "A call that succeeds never makes a later Commit panic": sequences of up to
\* three mutating calls on tiny preloaded structures (a one-element list, set
\* and sorted set, one key) inside one write transaction, then Commit.
SeqAlphabet == {"RPop", "LPop", "LRem", "LTrim", "LSet", "RPush", "SPop", "SRem", "SAdd",
                "ZPopMax", "ZPopMin", "ZRem", "ZRemRangeByRank", "ZAdd", "Put", "Delete"}
Seqs == {<<a>> : a \in SeqAlphabet} \cup {<<a, b>> : a, b \in SeqAlphabet}
        \cup (IF Full THEN {<<a, b, c>> : a, b, c \in SeqAlphabet} ELSE {<<a, a, b>> : a, b \in SeqAlphabet})

Methods == DOMAIN Sig \cup {"Seq"}
DBMethods == {"DBUpdate", "DBView", "DBBegin", "DBMerge", "DBBackup", "DBClose"}

\* lifecycle states: a transaction of an open database (writable, read-only,
\* committed, rolled back), the same after the database was closed; for DB
\* methods: open / closed
TxLives == {"rw", "ro", "committed", "rolledback", "closed-committed", "closed-rolledback"}
DBLives == {"open", "closed"}
Finished(life) == life \in {"committed", "rolledback", "closed-committed", "closed-rolledback"}

RECURSIVE Prod(_)
Prod(ds) == IF ds = <<>> THEN {<<>>} ELSE {<<x>> \o t : x \in Head(ds), t \in Prod(Tail(ds))}

First(S) == CHOOSE x \in S : TRUE
\* full products in the active lifecycle states, one representative tuple in
\* the finished / closed ones (there only the lifecycle check is reached)
ArgsFor(m, life) ==
  LET ds == [i \in 1..Len(Sig[m]) |-> Dom(Sig[m][i])] IN
  IF life \in {"rw", "ro", "open"} THEN Prod(ds) ELSE {[i \in 1..Len(ds) |-> First(ds[i])]}

Init == out = <<>>
Emit(m, life) == \E a \in ArgsFor(m, life) :
  /\ out' = [m |-> m, life |-> life, args |-> a]
  /\ PrintT(<<"GEN", ToJson(out')>>)
EmitSeq == \E q \in Seqs :
  /\ out' = [m |-> "Seq", life |-> "rw", args |-> q]
  /\ PrintT(<<"GEN", ToJson(out')>>)
Next == \/ \E m \in DOMAIN Sig \ DBMethods, life \in TxLives : Emit(m, life)
        \/ EmitSeq
        \/ \E m \in DBMethods, life \in DBLives : Emit(m, life)
Spec == Init /\ [][Next]_out
View == 0
=============================================================================
