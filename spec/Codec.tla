-------------------------------- MODULE Codec --------------------------------
(***************************************************************************)
(* C21: stored records round-trip and corruption is never served as data.  *)
(*                                                                         *)
(* TLA+ says nothing about byte layouts or CRC-32; what this module        *)
(* contributes is the complete enumeration of (record template, mutation)  *)
(* pairs and the acceptance rule.  A template fixes the size class of      *)
(* every variable-length field and the value class of every header field;  *)
(* the mutations of a template are: none, every single-bit flip of its     *)
(* stored bytes, every truncation (the bytes from n on read back as zero,  *)
(* as in a pre-sized segment file).  The Go replayer builds the record     *)
(* with the library's own encoder, stores it through the library's writer, *)
(* mutates the stored bytes, reads it back through DataFile.ReadAt (FileIO *)
(* and MMap), ReadBPTreeRootIdxAt or ReadBucketMeta, and records the       *)
(* fields written and the fields read.  Equality is judged here.           *)
(***************************************************************************)
EXTENDS Naturals, Sequences, FiniteSets, TLC, Json

CONSTANTS Pairs,   \* FALSE: vary one factor at a time around a base template; TRUE: two at a time
          HugeSizes \* TRUE: also flip the two high-order bytes of the size fields (the reader then asks for up to 4 GB)

VARIABLE out

Sizes  == {0, 1, 7}
Flags  == {0, 1, 9, 13}          \* delete, set, zadd, zpopmin (first, last and two in between of the 14 codes)
Stats  == {0, 1}
Dss    == {0, 2, 4}
Big    == {"0", "1", "max"}      \* 0, 1, the largest value of the field's type

\* a factor is <<name, set of alternative values>>; the base value comes first in BaseOf
\* pos: where in the (pre-sized) file the record is stored - at its start, or so
\* that it ends exactly on the last byte of the file
Poss == {"start", "end"}
EntryFactors == [bs |-> Sizes, ks |-> Sizes, vs |-> Sizes, flag |-> Flags, status |-> Stats, ds |-> Dss,
                 ts |-> Big, ttl |-> Big, txid |-> Big, pos |-> Poss]
EntryBase    == [bs |-> 1, ks |-> 1, vs |-> 1, flag |-> 1, status |-> 1, ds |-> 2, ts |-> "1", ttl |-> "0", txid |-> "1", pos |-> "start"]
RootFactors  == [fid |-> Big, rootoff |-> Big, ss |-> Sizes, es |-> Sizes]
RootBase     == [fid |-> "1", rootoff |-> "1", ss |-> 1, es |-> 1]
\* stale: the library rewrites the bucket-metadata record in place (WriteAt at
\* offset 0, no truncation), so a record can be followed by the last `stale`
\* bytes of a longer record that was stored there before
Stales       == {0, 5}
MetaFactors  == [ss |-> Sizes, es |-> Sizes, stale |-> Stales]
MetaBase     == [ss |-> 1, es |-> 1, stale |-> 0]

Variants1(base, fs) == {[base EXCEPT ![f] = v] : <<f, v>> \in UNION {{<<f, v>> : v \in fs[f]} : f \in DOMAIN fs}}
Variants2(base, fs) == UNION {Variants1(t, fs) : t \in Variants1(base, fs)}
\* every combination of the size fields, whatever the tier
SizeCombos(base, szs) == {[f \in DOMAIN base |-> IF f \in DOMAIN s THEN s[f] ELSE base[f]] : s \in [szs -> Sizes]}

Templates(kind) ==
  CASE kind = "entry" -> (IF Pairs THEN Variants2(EntryBase, EntryFactors) ELSE Variants1(EntryBase, EntryFactors))
                          \cup SizeCombos(EntryBase, {"bs", "ks", "vs"})
                          \cup SizeCombos([EntryBase EXCEPT !.pos = "end"], {"bs", "ks", "vs"})
                          \* the reader tells a record from the zero padding behind the log by
                          \* checksum, key size, value size and timestamp: all sizes with timestamp 0
                          \cup SizeCombos([EntryBase EXCEPT !.ts = "0"], {"bs", "ks", "vs"})
    [] kind = "root"  -> (IF Pairs THEN Variants2(RootBase, RootFactors) ELSE Variants1(RootBase, RootFactors))
                          \cup SizeCombos(RootBase, {"ss", "es"})
    [] kind = "meta"  -> UNION {SizeCombos([MetaBase EXCEPT !.stale = st], {"ss", "es"}) : st \in Stales}

\* stored length of a template
Len0(kind, t) ==
  CASE kind = "entry" -> 42 + t.bs + t.ks + t.vs
    [] kind = "root"  -> 28 + t.ss + t.es
    [] kind = "meta"  -> 12 + t.ss + t.es

\* byte offsets of the two high-order bytes of the 32-bit size fields
HighSizeBytes(kind) ==
  CASE kind = "entry" -> {14, 15, 18, 19, 28, 29}
    [] kind = "root"  -> {22, 23, 26, 27}
    [] kind = "meta"  -> {6, 7, 10, 11}
FlipBits(kind, t) ==
  {i \in 0..(8 * Len0(kind, t) - 1) : HugeSizes \/ (i \div 8) \notin HighSizeBytes(kind)}

Mutations(kind, t) ==
  {[type |-> "none", i |-> 0]}
  \cup {[type |-> "flip", i |-> i] : i \in FlipBits(kind, t)}
  \cup {[type |-> "trunc", i |-> n] : n \in 0..(Len0(kind, t) - 1)}

Kinds == {"entry", "root", "meta"}

Init == out = <<>>
Next == \E kind \in Kinds : \E t \in Templates(kind) : \E m \in Mutations(kind, t) :
          /\ out' = [kind |-> kind, t |-> t, mut |-> m]
          /\ PrintT(<<"GEN", ToJson(out')>>)
Spec == Init /\ [][Next]_out
View == 0

\* e: a recorded read.  outcome: "error" | "absent" | "record"; want / got: the
\* fields written / read back (byte strings as sequences, 64-bit values as strings)
Admitted(e) ==
  IF e.mut.type = "none"
  THEN e.outcome = "record" /\ e.got = e.want            \* round trip, for all field values
  ELSE e.outcome \in {"error", "absent"} \/ (e.outcome = "record" /\ e.got = e.want)
=============================================================================
