-------------------------------- MODULE Nuts --------------------------------
(***************************************************************************)
(* API-grain specification of NutsDB (xujiajun/nutsdb).                    *)
(*                                                                         *)
(* One action per public call return.  A call is a record `a` carrying the *)
(* operation name, its arguments AND the results the caller saw; an action *)
(* is enabled only for the results the specification admits.  The same     *)
(* actions are used by the bounded model (NutsMC), where `a` ranges over a *)
(* finite set, and by trace validation (NutsTrace), where `a` is a line    *)
(* recorded from the real library.                                         *)
(*                                                                         *)
(* State is kept twice on purpose: `mem` is what reads of the running      *)
(* process consult, `log` is what is on disk; Replay(log) is what a reopen *)
(* rebuilds.  Several listed properties are exactly the claim that the     *)
(* two agree.                                                              *)
(*                                                                         *)
(* Where the pinned implementation knowingly deviates from the behaviour a *)
(* property demands, the deviation is a named disjunct guarded by          *)
(* membership of its finding id in Dev (DESIGN.md section 5).  A deviant   *)
(* disjunct is enabled only when the ideal one is not, and records its id  *)
(* in `notes`.                                                             *)
(***************************************************************************)
EXTENDS Bytes, Integers, TLC

CONSTANT Dev            \* set of enabled known-finding ids

KV == INSTANCE KVSpec
L  == INSTANCE ListSpec
S  == INSTANCE SetSpec
Z  == INSTANCE ZSetSpec

VARIABLES
  status,   \* "open" | "closed"
  mem,      \* contents the running process serves
  log,      \* sequence of [id, c, r]: tx id, committed marker, logical record
  tx,       \* the open transaction, or NoTx
  notes     \* finding ids whose deviant disjunct was needed

vars == <<status, mem, log, tx, notes>>

-----------------------------------------------------------------------------
(* Contents                                                                *)

\* kv: <<bucket,key>> |-> Rec      ls: <<bucket,key>> |-> Seq(value)
\* st: <<bucket,key>> |-> set      zs: bucket |-> (member |-> [s, v])
Empty == [kv |-> <<>>, ls |-> <<>>, st |-> <<>>, zs |-> <<>>]

At(f, x, d) == IF x \in DOMAIN f THEN f[x] ELSE d
Upd(f, x, v) == [y \in DOMAIN f \cup {x} |-> IF y = x THEN v ELSE f[y]]

ListOf(c, b, k) == At(c.ls, <<b, k>>, <<>>)
SetOf(c, b, k)  == At(c.st, <<b, k>>, {})
ZOf(c, b)       == At(c.zs, b, <<>>)
\* the KV bucket b as a function key |-> Rec
BucketOf(c, b)  == [k \in {p[2] : p \in {q \in DOMAIN c.kv : q[1] = b}} |-> c.kv[<<b, k>>]]

NoTx == [st |-> "none", id |-> "", recs |-> <<>>, view |-> Empty, start |-> Empty]

-----------------------------------------------------------------------------
(* Applying one logical record - what Tx.Commit / DB.buildIndexes do.      *)
(* Code-shaped: a record that is not applicable is ignored, as the commit  *)
(* path ignores the data structures' errors.                               *)

\* Known findings modelled as deterministic deviations (enabled by Dev):
\*   F-C06-1  ds/set.SRem rejects the empty member, so SRem/SPop/SMove never
\*            remove "" although SAdd stores it
\*   F-C06-2  SMoveByOneBucket/TwoBuckets change the in-memory sets at call
\*            time and log nothing: not durable, not rolled back, performed in
\*            read-only transactions, and performed for non-members of the source
\*   F-C07-1  ZRem of the member with the empty key returns ErrKeyEmpty: the
\*            record key would be empty, which Tx.put refuses
F_SRemEmpty == "F-C06-1"
F_SMove     == "F-C06-2"
F_ZRemEmpty == "F-C07-1"

ApplyList(l, r) ==
  CASE r.op = "rpush" -> l \o <<r.v>>
    [] r.op = "lpush" -> <<r.v>> \o l
    [] r.op = "lpop"  -> IF l = <<>> THEN l ELSE Tail(l)
    [] r.op = "rpop"  -> IF l = <<>> THEN l ELSE SubSeq(l, 1, Len(l) - 1)
    [] r.op = "lrem"  -> IF r.cnt > Len(l) THEN l ELSE L!LRem(l, r.cnt, r.v).post
    [] r.op = "lset"  -> L!LSet(l, r.i, r.v).post
    [] r.op = "ltrim" -> IF L!LRangeOf(l, r.s, r.e) = <<>> THEN l ELSE L!LRangeOf(l, r.s, r.e)

ApplyZ(z, r) ==
  CASE r.op = "zadd"     -> Z!ZPut(z, r.k, r.s, r.v)
    [] r.op = "zrem"     -> Z!ZDel(z, {r.k})
    [] r.op = "zremrank" -> IF DOMAIN z = {} THEN z ELSE Z!ZDel(z, SeqToSet(Z!ZRankRange(z, r.s, r.e)))
    [] r.op = "zpopmax"  -> IF DOMAIN z = {} THEN z ELSE Z!ZDel(z, {Z!ZMax(z)})
    [] r.op = "zpopmin"  -> IF DOMAIN z = {} THEN z ELSE Z!ZDel(z, {Z!ZMin(z)})

ApplyRec(c, r) ==
  CASE r.ds = "kv" ->
         [c EXCEPT !.kv = Upd(@, <<r.b, r.k>>,
             IF r.op = "put"
             THEN [v |-> r.v, ttl |-> r.ttl, tsLo |-> r.tsLo, tsHi |-> r.tsHi, del |-> FALSE]
             ELSE [v |-> "", ttl |-> 0, tsLo |-> 0, tsHi |-> 0, del |-> TRUE])]
    [] r.ds = "ls" -> [c EXCEPT !.ls = Upd(@, <<r.b, r.k>>, ApplyList(ListOf(c, r.b, r.k), r))]
    [] r.ds = "st" ->
         [c EXCEPT !.st = Upd(@, <<r.b, r.k>>,
             IF r.op = "sadd" THEN SetOf(c, r.b, r.k) \cup {r.v}
             ELSE IF r.v = "" /\ F_SRemEmpty \in Dev THEN SetOf(c, r.b, r.k)   \* known finding
             ELSE SetOf(c, r.b, r.k) \ {r.v})]
    [] r.ds = "zs" -> [c EXCEPT !.zs = Upd(@, r.b, ApplyZ(ZOf(c, r.b), r))]

ApplyRecs(c, rs) == FoldLeft(ApplyRec, c, rs)

\* What DB.Open rebuilds: the records whose transaction id has a committed
\* record, applied in log order.
CommittedIds(lg) == {lg[i].id : i \in {j \in 1..Len(lg) : lg[j].c}}
Replay(lg) ==
  LET ok == CommittedIds(lg)
  IN  FoldLeft(LAMBDA c, e : IF e.id \in ok THEN ApplyRec(c, e.r) ELSE c, Empty, lg)

\* records of a committing transaction: only the last one carries the marker
\* (d: "in doubt", see F-C12-4 below)
Stamp(id, rs) == [i \in 1..Len(rs) |-> [id |-> id, c |-> (i = Len(rs)), r |-> rs[i], d |-> FALSE]]
\* the first n records of a failed commit: none carries the marker
StampFailed(id, rs, n) == [i \in 1..n |-> [id |-> id, c |-> FALSE, r |-> rs[i], d |-> FALSE]]
\* Known finding F-C12-4: a Commit that fails at the Sync of its last record
\* has already written every record, the last one marked: the process does
\* not apply the transaction, but the complete transaction sits at the tail
\* of the active file.  A reopen shows it; the next commit that fits into
\* the active file overwrites it (the write offset was not advanced), one
\* that rotates first leaves it there for good.
F_SyncDoubt == "F-C12-4"
StampDoubt(id, rs) == [i \in 1..Len(rs) |-> [id |-> id, c |-> (i = Len(rs)), r |-> rs[i], d |-> TRUE]]
\* the logs the next write may find: as is, or with the in-doubt tail overwritten
TailDoubt(lg) == lg # <<>> /\ lg[Len(lg)].d
DropTail(lg) == SelectSeq(lg, LAMBDA e : ~(e.d /\ e.id = lg[Len(lg)].id))
Bases(lg) == IF TailDoubt(lg) THEN {lg, DropTail(lg)} ELSE {lg}
ClearDoubt(lg) == [i \in 1..Len(lg) |-> [lg[i] EXCEPT !.d = FALSE]]

-----------------------------------------------------------------------------
(* Observation: everything a reader can see, in comparable form.           *)

\* live KV pairs of all buckets for a reader at [t0,t1], as a set of <<b,k,v>>;
\* `L` chooses the live set per bucket (see KVSpec!LiveSets).
KvBuckets(c) == {p[1] : p \in DOMAIN c.kv}
\* The common case: no expiry instant falls in the window, every bucket has
\* exactly one live set.
SureLiveKeys(c, b, t1) == {k \in DOMAIN BucketOf(c, b) : KV!SureLive(BucketOf(c, b)[k], t1)}
MayLiveKeys(c, b, t0)  == {k \in DOMAIN BucketOf(c, b) : ~KV!SureDead(BucketOf(c, b)[k], t0)}

ObsKvLo(c, t1) == {<<p[1], p[2], c.kv[p].v>> : p \in {q \in DOMAIN c.kv : KV!SureLive(c.kv[q], t1)}}
ObsKvHi(c, t0) == {<<p[1], p[2], c.kv[p].v>> : p \in {q \in DOMAIN c.kv : ~KV!SureDead(c.kv[q], t0)}}
ObsLs(c) == {<<p[1], p[2], c.ls[p]>> : p \in {q \in DOMAIN c.ls : c.ls[q] # <<>>}}
ObsSt(c) == {<<p[1], p[2], c.st[p]>> : p \in {q \in DOMAIN c.st : c.st[q] # {}}}
ZTriples(z) == [i \in 1..Cardinality(DOMAIN z) |->
                  <<Z!ZOrder(z)[i], z[Z!ZOrder(z)[i]].s, z[Z!ZOrder(z)[i]].v>>]
ObsZs(c) == {<<b, ZTriples(c.zs[b])>> : b \in {x \in DOMAIN c.zs : DOMAIN c.zs[x] # {}}}

\* An observation o = [kv, ls, st, zs] (sets, see NutsTrace for the decoding)
\* agrees with contents c for a reader in [t0,t1].
ObsMatches(o, c, t0, t1) ==
  /\ ObsKvLo(c, t1) \subseteq o.kv /\ o.kv \subseteq ObsKvHi(c, t0)
  /\ o.ls = ObsLs(c)
  /\ o.st = ObsSt(c)
  /\ o.zs = ObsZs(c)

\* Same for two contents (used by invariants of the bounded model).
SameObs(c1, c2, t) ==
  /\ ObsKvLo(c1, t) = ObsKvLo(c2, t)
  /\ ObsLs(c1) = ObsLs(c2) /\ ObsSt(c1) = ObsSt(c2) /\ ObsZs(c1) = ObsZs(c2)

-----------------------------------------------------------------------------
(* Read calls: is the logged result admitted on contents c?                *)

Keys(res) == [i \in 1..Len(res) |-> res[i].k]
ValsOK(res, m) == \A i \in 1..Len(res) : res[i].k \in DOMAIN m /\ res[i].v = m[res[i].k].v
\* a scan's error and an empty result are the same observation
Got(a) == IF a.err THEN <<>> ELSE Keys(a.res)

KvReadOK(a, c, D) ==
  LET m == BucketOf(c, a.b) IN
  \E Lv \in KV!LiveSets(m, a.t0, a.t1) :
    CASE a.op = "get" ->
           IF a.k \in Lv THEN ~a.err /\ a.v = m[a.k].v ELSE a.err
      [] a.op = "getall" -> Got(a) = KV!AllRes(Lv) /\ (~a.err => ValsOK(a.res, m))
      [] a.op = "range"  -> Got(a) = KV!RangeRes(Lv, a.s, a.e) /\ (~a.err => ValsOK(a.res, m))
      [] a.op = "pscan"  ->
           /\ KV!PageOK(Got(a), KV!PrefixAll(Lv, a.p), a.off, a.lim)
           /\ (~a.err => ValsOK(a.res, m))
      [] a.op = "psscan" ->
           IF a.badre THEN a.err
           ELSE IF a.off # 0 THEN (~a.err => ValsOK(a.res, m) /\ SeqToSet(Keys(a.res)) \subseteq Lv)
           ELSE /\ KV!PageOK(Got(a), KV!PrefixSearchAll(Lv, a.p, SeqToSet(a.ms)), 0, a.lim)
                /\ (~a.err => ValsOK(a.res, m))

ListReadOK(a, c, D) ==
  LET l == ListOf(c, a.b, a.k) IN
  CASE a.op = "lpeek"  -> IF a.err THEN L!LPeek(l).mayErr ELSE ~L!LPeek(l).nil /\ a.res = L!LPeek(l).res
    [] a.op = "rpeek"  -> IF a.err THEN L!RPeek(l).mayErr ELSE ~L!RPeek(l).nil /\ a.res = L!RPeek(l).res
    [] a.op = "lsize"  -> IF a.err THEN l = <<>> ELSE a.n = Len(l)
    [] a.op = "lrange" -> IF a.err THEN L!LRange(l, a.s, a.e).mayErr ELSE a.res = L!LRange(l, a.s, a.e).res

NoDup(s) == Cardinality(SeqToSet(s)) = Len(s)

SetReadOK(a, c, D) ==
  CASE a.op = "sismember"   -> a.ok = (a.v \in SetOf(c, a.b, a.k))
    [] a.op = "saremembers" -> a.ok = (SeqToSet(a.vals) \subseteq SetOf(c, a.b, a.k))
    [] a.op = "smembers"    -> IF a.err THEN SetOf(c, a.b, a.k) = {}
                               ELSE SeqToSet(a.res) = SetOf(c, a.b, a.k) /\ NoDup(a.res)
    [] a.op = "scard"       -> IF a.err THEN SetOf(c, a.b, a.k) = {} ELSE a.n = Cardinality(SetOf(c, a.b, a.k))
    [] a.op = "shaskey"     -> (a.err => SetOf(c, a.b, a.k) = {}) /\ (SetOf(c, a.b, a.k) # {} => a.ok)
    [] a.op = "sdiff"  ->
         LET s1 == SetOf(c, a.b, a.k) s2 == SetOf(c, a.b2, a.k2) IN
         IF a.err THEN s1 = {} \/ s2 = {} ELSE SeqToSet(a.res) = s1 \ s2 /\ NoDup(a.res)
    [] a.op = "sunion" ->
         LET s1 == SetOf(c, a.b, a.k) s2 == SetOf(c, a.b2, a.k2) IN
         IF a.err THEN s1 = {} \/ s2 = {} ELSE SeqToSet(a.res) = s1 \cup s2 /\ NoDup(a.res)

\* a logged node [k, s, v] is the member k of z with its score and value
NodeIs(n, z, k) == n.k = k /\ n.s = z[k].s /\ n.v = z[k].v
NodesAre(res, z, ks) == Len(res) = Len(ks) /\ \A i \in 1..Len(ks) : NodeIs(res[i], z, ks[i])

ZReadOK(a, c, D) ==
  LET z == ZOf(c, a.b) n == Cardinality(DOMAIN z) IN
  CASE a.op = "zpeekmin" -> IF n = 0 THEN a.err \/ a.nil ELSE ~a.err /\ ~a.nil /\ NodeIs(a.node, z, Z!ZMin(z))
    [] a.op = "zpeekmax" -> IF n = 0 THEN a.err \/ a.nil ELSE ~a.err /\ ~a.nil /\ NodeIs(a.node, z, Z!ZMax(z))
    [] a.op = "zrangebyscore" ->
         IF n = 0 THEN a.err \/ a.res = <<>>
         ELSE ~a.err /\ NodesAre(a.res, z, Z!ZScoreRange(z, a.s, a.e, a.exs, a.exe, a.lim))
    [] a.op = "zcount" ->
         IF n = 0 THEN a.err \/ a.n = 0
         ELSE ~a.err /\ a.n = Len(Z!ZScoreRange(z, a.s, a.e, a.exs, a.exe, a.lim))
    [] a.op = "zrangebyrank" ->
         IF n = 0 THEN a.err \/ a.res = <<>>
         ELSE /\ ~a.err
              /\ \/ NodesAre(a.res, z, Z!ZRankRange(z, a.s, a.e))
                 \/ ~Z!RanksInRange(z, a.s, a.e) /\ a.res = <<>>
    [] a.op = "zrank"    -> IF a.k \in DOMAIN z THEN ~a.err /\ a.n = Z!ZRankOf(z, a.k) ELSE a.err \/ a.n = 0
    [] a.op = "zrevrank" -> IF a.k \in DOMAIN z THEN ~a.err /\ a.n = n - Z!ZRankOf(z, a.k) + 1 ELSE a.err \/ a.n = 0
    [] a.op = "zscore"   -> IF a.k \in DOMAIN z THEN ~a.err /\ a.s = z[a.k].s ELSE a.err
    [] a.op = "zgetbykey"-> IF a.k \in DOMAIN z THEN ~a.err /\ NodeIs(a.node, z, a.k) ELSE a.err
    [] a.op = "zcard"    -> IF a.err THEN n = 0 ELSE a.n = n
    [] a.op = "zmembers" ->
         IF a.err THEN n = 0
         ELSE /\ Len(a.res) = n
              /\ {a.res[i].k : i \in 1..Len(a.res)} = DOMAIN z
              /\ \A i \in 1..Len(a.res) : NodeIs(a.res[i], z, a.res[i].k)

KvReads   == {"get", "getall", "range", "pscan", "psscan"}
ListReads == {"lpeek", "rpeek", "lsize", "lrange"}
SetReads  == {"sismember", "saremembers", "smembers", "scard", "shaskey", "sdiff", "sunion"}
ZReads    == {"zpeekmin", "zpeekmax", "zrangebyscore", "zcount", "zrangebyrank", "zrank",
              "zrevrank", "zscore", "zgetbykey", "zcard", "zmembers"}
Reads     == KvReads \cup ListReads \cup SetReads \cup ZReads

\* D: the deviations (known findings) admitted in this evaluation
ReadOK(a, c, D) ==
  CASE a.op \in KvReads   -> KvReadOK(a, c, D)
    [] a.op \in ListReads -> ListReadOK(a, c, D)
    [] a.op \in SetReads  -> SetReadOK(a, c, D)
    [] a.op \in ZReads    -> ZReadOK(a, c, D)

-----------------------------------------------------------------------------
(* Mutating calls: MutOK - is the logged outcome admitted when the call is *)
(* evaluated on contents c;  Recs - the records a successful call buffers. *)

Muts == {"put", "del", "rpush", "lpush", "lpop", "rpop", "lrem", "lset", "ltrim",
         "sadd", "srem", "spop", "smove", "zadd", "zrem", "zremrank", "zpopmax", "zpopmin"}

MutOK(a, c, D) ==
  CASE a.op \in {"put", "del", "rpush", "lpush", "sadd", "srem", "zadd"} -> TRUE
    [] a.op = "lpop"  -> LET r == L!LPop(ListOf(c, a.b, a.k)) IN IF a.err THEN r.mayErr ELSE ~r.nil /\ a.res = r.res
    [] a.op = "rpop"  -> LET r == L!RPop(ListOf(c, a.b, a.k)) IN IF a.err THEN r.mayErr ELSE ~r.nil /\ a.res = r.res
    [] a.op = "lrem"  -> LET r == L!LRem(ListOf(c, a.b, a.k), a.cnt, a.v) IN IF a.err THEN r.mayErr ELSE a.n = r.res
    [] a.op = "lset"  -> LET r == L!LSet(ListOf(c, a.b, a.k), a.i, a.v) IN IF a.err THEN r.mayErr ELSE ~r.errOnly
    [] a.op = "ltrim" -> a.err => L!LTrim(ListOf(c, a.b, a.k), a.s, a.e).mayErr
    [] a.op = "spop"  -> IF a.err THEN SetOf(c, a.b, a.k) = {} ELSE a.res \in SetOf(c, a.b, a.k)
    [] a.op = "smove" ->
         LET src == SetOf(c, a.b, a.k) dst == SetOf(c, a.b2, a.k2) IN
         IF a.err \/ ~a.ok THEN a.v \notin src \/ dst = {} ELSE a.v \in src
    [] a.op = "zrem"     -> a.err => (a.k \notin DOMAIN ZOf(c, a.b) \/ (a.k = <<>> /\ F_ZRemEmpty \in D))
    [] a.op = "zremrank" -> a.err => DOMAIN ZOf(c, a.b) = {}
    [] a.op = "zpopmax"  ->
         LET z == ZOf(c, a.b) IN
         IF DOMAIN z = {} THEN a.err \/ a.nil ELSE ~a.err /\ ~a.nil /\ NodeIs(a.node, z, Z!ZMax(z))
    [] a.op = "zpopmin"  ->
         LET z == ZOf(c, a.b) IN
         IF DOMAIN z = {} THEN a.err \/ a.nil ELSE ~a.err /\ ~a.nil /\ NodeIs(a.node, z, Z!ZMin(z))

Recs(a) ==
  IF a.err THEN <<>> ELSE
  CASE a.op = "put"   -> <<[ds |-> "kv", op |-> "put", b |-> a.b, k |-> a.k, v |-> a.v, ttl |-> a.ttl,
                            tsLo |-> a.tsLo, tsHi |-> a.tsHi]>>
    [] a.op = "del"   -> <<[ds |-> "kv", op |-> "del", b |-> a.b, k |-> a.k]>>
    [] a.op \in {"rpush", "lpush"} ->
         [i \in 1..Len(a.vals) |-> [ds |-> "ls", op |-> a.op, b |-> a.b, k |-> a.k, v |-> a.vals[i]]]
    [] a.op \in {"lpop", "rpop"} -> <<[ds |-> "ls", op |-> a.op, b |-> a.b, k |-> a.k]>>
    [] a.op = "lrem"  -> <<[ds |-> "ls", op |-> "lrem", b |-> a.b, k |-> a.k, cnt |-> a.cnt, v |-> a.v]>>
    [] a.op = "lset"  -> <<[ds |-> "ls", op |-> "lset", b |-> a.b, k |-> a.k, i |-> a.i, v |-> a.v]>>
    [] a.op = "ltrim" -> <<[ds |-> "ls", op |-> "ltrim", b |-> a.b, k |-> a.k, s |-> a.s, e |-> a.e]>>
    [] a.op \in {"sadd", "srem"} ->
         [i \in 1..Len(a.vals) |-> [ds |-> "st", op |-> a.op, b |-> a.b, k |-> a.k, v |-> a.vals[i]]]
    [] a.op = "spop"  -> <<[ds |-> "st", op |-> "srem", b |-> a.b, k |-> a.k, v |-> a.res]>>
    [] a.op = "smove" ->
         IF ~a.ok THEN <<>>
         ELSE <<[ds |-> "st", op |-> "srem", b |-> a.b, k |-> a.k, v |-> a.v],
                [ds |-> "st", op |-> "sadd", b |-> a.b2, k |-> a.k2, v |-> a.v]>>
    [] a.op = "zadd"  -> <<[ds |-> "zs", op |-> "zadd", b |-> a.b, k |-> a.k, s |-> a.s, v |-> a.v]>>
    [] a.op = "zrem"  -> <<[ds |-> "zs", op |-> "zrem", b |-> a.b, k |-> a.k]>>
    [] a.op = "zremrank" -> <<[ds |-> "zs", op |-> "zremrank", b |-> a.b, s |-> a.s, e |-> a.e]>>
    [] a.op \in {"zpopmax", "zpopmin"} -> <<[ds |-> "zs", op |-> a.op, b |-> a.b]>>

-----------------------------------------------------------------------------
(* Actions                                                                 *)

Init ==
  /\ status = "open" /\ mem = Empty /\ log = <<>> /\ tx = NoTx /\ notes = {}

\* db.Begin(writable) / the start of Update / View
Begin(a) ==
  /\ tx.st = "none"
  /\ IF status = "open"
     THEN /\ ~a.err
          /\ tx' = [st |-> IF a.w THEN "rw" ELSE "ro", id |-> a.id, recs |-> <<>>, view |-> mem, start |-> mem]
     ELSE a.err /\ UNCHANGED tx          \* a closed database refuses transactions
  /\ UNCHANGED <<status, mem, log, notes>>

\* A call whose result is evaluated on what the transaction should see
\* (C13: its start state plus its own operations), or - known finding -
\* on the committed state only.
F_ReadsCommitted == "F-C13-1"

\* the findings a deviant evaluation of call a may be blamed on
Blame(a) == IF a.op = "zrem" THEN {F_ZRemEmpty}
            ELSE {}

CallOK(a, ok(_, _, _)) ==
  \/ ok(a, tx.view, {}) /\ UNCHANGED notes
  \/ /\ ~ok(a, tx.view, {}) /\ ok(a, tx.view, Dev)
     /\ notes' = notes \cup (Blame(a) \cap Dev)
  \/ /\ ~ok(a, tx.view, Dev)
     /\ F_ReadsCommitted \in Dev /\ tx.st = "rw" /\ ok(a, mem, Dev)
     /\ notes' = notes \cup {F_ReadsCommitted} \cup (IF ok(a, mem, {}) THEN {} ELSE Blame(a) \cap Dev)

\* any read API inside a transaction
Read(a) ==
  /\ tx.st \in {"rw", "ro"} /\ a.op \in Reads
  /\ CallOK(a, ReadOK)
  /\ UNCHANGED <<status, mem, log, tx>>

\* any mutating API inside a write transaction: buffered, visible to the
\* transaction, applied at commit
RemovesEmpty(a, c) ==
  \/ a.op = "srem" /\ "" \in SeqToSet(a.vals) /\ "" \in SetOf(c, a.b, a.k)
  \/ a.op = "spop" /\ ~a.err /\ a.res = ""

Mutate(a) ==
  /\ tx.st = "rw" /\ a.op \in Muts
  /\ ~(a.op = "smove" /\ F_SMove \in Dev)
  /\ \/ CallOK(a, MutOK) /\ ~(F_SRemEmpty \in Dev /\ RemovesEmpty(a, tx.view))
     \/ /\ F_SRemEmpty \in Dev /\ RemovesEmpty(a, tx.view)
        /\ MutOK(a, tx.view, Dev) \/ (F_ReadsCommitted \in Dev /\ MutOK(a, mem, Dev))
        /\ notes' = notes \cup {F_SRemEmpty}
  /\ tx' = [tx EXCEPT !.recs = @ \o Recs(a), !.view = ApplyRecs(@, Recs(a))]
  /\ UNCHANGED <<status, mem, log>>

\* a mutating API inside a read-only transaction: whatever it returns, it
\* buffers nothing (C12)
MutateRO(a) ==
  /\ tx.st = "ro" /\ a.op \in Muts
  /\ ~(a.op = "smove" /\ F_SMove \in Dev)
  /\ UNCHANGED vars

\* Known finding F-C06-2: what SMove does on the pinned tree.
SMoveInPlace(c, a) ==
  LET c1 == [c EXCEPT !.st = Upd(@, <<a.b2, a.k2>>, SetOf(c, a.b2, a.k2) \cup {a.v})]
  IN  IF a.v = "" THEN c1
      ELSE [c1 EXCEPT !.st = Upd(@, <<a.b, a.k>>, SetOf(c1, a.b, a.k) \ {a.v})]

SMoveDeviant(a) ==
  /\ F_SMove \in Dev /\ a.op = "smove" /\ tx.st \in {"rw", "ro"}
  /\ IF a.err \/ ~a.ok
     THEN /\ SetOf(mem, a.b, a.k) = {} \/ SetOf(mem, a.b2, a.k2) = {}
          /\ UNCHANGED <<mem, tx, notes>>
     ELSE /\ mem' = SMoveInPlace(mem, a)
          /\ tx' = [tx EXCEPT !.view = ApplyRecs(SMoveInPlace(mem, a), tx.recs)]
          /\ notes' = notes \cup {F_SMove}
  /\ UNCHANGED <<status, log>>

\* any API on a finished transaction: an error and no effect (C12)
Finished(a) ==
  /\ tx.st = "none" /\ a.err
  /\ UNCHANGED vars

\* Tx.Commit returned nil: all records are on disk, the last one marked, and
\* the running process serves the transaction's view.
CommitOK(a) ==
  /\ tx.st \in {"rw", "ro"} /\ ~a.err
  /\ mem' = IF tx.st = "rw" THEN tx.view ELSE mem
  /\ IF tx.st = "rw" /\ tx.recs # <<>> THEN \E B0 \in Bases(log) : log' = B0 \o Stamp(tx.id, tx.recs) ELSE log' = log
  /\ tx' = NoTx
  /\ UNCHANGED <<status, notes>>

\* Tx.Commit returned an error.  a.nw is the number of records completely
\* written before the failure.  Nothing changes for readers now or after
\* reopen: the written records carry no marker (C12).  If every record,
\* including the marked one, was written completely and the failure came
\* afterwards (an injected sync error), the outcome is in doubt and the
\* requirement is only all-or-nothing, in the process and after reopen.
CommitFail(a) ==
  /\ tx.st = "rw" /\ a.err
  /\ a.nw <= Len(tx.recs)
  /\ IF a.nw < Len(tx.recs) \/ tx.recs = <<>>
     THEN /\ \E B0 \in (IF a.nw = 0 THEN {log} ELSE Bases(log)) : log' = B0 \o StampFailed(tx.id, tx.recs, a.nw)
          /\ mem' = mem
          /\ UNCHANGED notes
     ELSE \* every record was written; the failure came afterwards
          \/ /\ \E B0 \in Bases(log) : log' = B0 \o Stamp(tx.id, tx.recs)
             /\ mem' = tx.view /\ UNCHANGED notes
          \/ /\ \E B0 \in Bases(log) : log' = B0 \o StampFailed(tx.id, tx.recs, a.nw - 1)
             /\ mem' = mem /\ UNCHANGED notes
          \/ /\ F_SyncDoubt \in Dev
             /\ \E B0 \in Bases(log) : log' = B0 \o StampDoubt(tx.id, tx.recs)
             /\ mem' = mem /\ notes' = notes \cup {F_SyncDoubt}
  /\ tx' = NoTx
  /\ UNCHANGED status

\* Tx.Rollback, or Update/View whose function returned an error
Rollback(a) ==
  /\ tx.st \in {"rw", "ro"}
  /\ tx' = NoTx
  /\ UNCHANGED <<status, mem, log, notes>>

Close(a) ==
  /\ tx.st = "none"
  /\ IF status = "open" THEN ~a.err /\ status' = "closed" ELSE a.err /\ UNCHANGED status
  /\ UNCHANGED <<mem, log, tx, notes>>

\* Open on the directory the library produced never fails (C09) and serves
\* exactly the committed transactions (C08)
Open(a) ==
  /\ status = "closed" /\ ~a.err
  /\ status' = "open"
  /\ mem' = Replay(log)
  /\ log' = ClearDoubt(log)
  /\ UNCHANGED <<tx, notes>>

\* Merge, successful or not, changes nothing a reader sees now or after
\* reopen (C15)
Merge(a) ==
  /\ status = "open" /\ tx.st = "none"
  /\ UNCHANGED vars

-----------------------------------------------------------------------------
(* State predicates used as invariants                                     *)

\* C08: with no transaction open, a reopen would serve what the process serves
ReopenInv == (status = "open" /\ tx.st = "none") => SameObs(Replay(log), mem, 0)

\* Only committed ids contribute to a reopen: a log whose failed records
\* share no id with a committed record replays as if they were absent.
TypeOK ==
  /\ status \in {"open", "closed", "lost"}
  /\ tx.st \in {"none", "rw", "ro"}
=============================================================================
