------------------------------- MODULE Commit -------------------------------
(***************************************************************************)
(* Protocol grain of Tx.Commit, segment rotation and recovery (DB.Open),   *)
(* one action per file mutation, in the order the code performs them, with *)
(* the environment actions a process crash, a power loss and an I/O fault. *)
(*                                                                         *)
(* A transaction is a number t with n[t] records; record i of t is the     *)
(* pair <<t, i>>; only the last record carries the commit mark.  A data    *)
(* file is a sequence of chunks [t, i, id, last, synced, torn]; `woff` is  *)
(* the number of chunks the writer counts as written (a record whose write *)
(* or sync failed is on disk but not counted, so the next write lands on   *)
(* top of it).  Recovery scans every file in order, stops a file at a torn *)
(* chunk, and applies the records whose stored id has a marked record.     *)
(*                                                                         *)
(* Switches (constant Sw) make the model code-shaped the way the pinned    *)
(* tree (or a seeded change) is, and TLC must then produce a counter-      *)
(* example to the named property:                                          *)
(*   "DupIds"           a tx may reuse the id of the failed tx before it   *)
(*                      (pre cb02dd3)                      -> CrashAtomic  *)
(*   "TornTailAborts"   recovery fails on a torn chunk (pre 762bf2c)       *)
(*                                                         -> RecoverTotal *)
(*   "IndexDuringWrite" the in-process index is updated record by record   *)
(*                      (pre ccc00cd)                      -> FaultAtomic  *)
(*   "SyncOncePerTx"    only the last record is followed by Sync           *)
(*                      (seeded C11)                       -> Durable      *)
(*   "SyncFaultOnMark"  the Sync after the marked record may fail          *)
(*                      (known finding F-C12-4)            -> FaultAtomic  *)
(***************************************************************************)
EXTENDS Naturals, Sequences, FiniteSets, TLC

CONSTANTS MaxTx,     \* transactions
          MaxRecs,   \* records per transaction
          Cap,       \* chunks per data file
          SyncOn,    \* Options.SyncEnable
          Sw

Tx == 1..MaxTx
Idle == [t |-> 0, n |-> 0, next |-> 0, id |-> 0, unsynced |-> FALSE]

VARIABLES
  files,     \* Seq of [recs: Seq(chunk), woff: Nat, created: BOOLEAN (creation durable)]
  active,    \* index of the active file
  cur,       \* the commit in progress, or Idle
  ntx,       \* transactions begun so far
  nrec,      \* t -> number of records (0: not begun)
  ids,       \* t -> stored tx id
  returned,  \* set of transactions whose Commit returned nil
  failed,    \* set of transactions whose Commit returned an error
  mem,       \* set of records <<t, i>> the in-process index serves
  down,      \* "no" | "crash" | "power": the process is gone
  rec        \* [st: "none" | "fail" | "ok", s: set of records recovery applied]

vars == <<files, active, cur, ntx, nrec, ids, returned, failed, mem, down, rec>>

Chunk(t, i, torn) == [t |-> t, i |-> i, id |-> ids[t], last |-> (i = nrec[t]), synced |-> FALSE, torn |-> torn]
NewFile == [recs |-> <<>>, woff |-> 0, created |-> FALSE]
RecsOf(S) == {<<t, i>> : t \in S, i \in 1..MaxRecs} \cap {<<t, i>> : t \in Tx, i \in 1..MaxRecs}
AllRecs(S) == UNION {{<<t, i>> : i \in 1..nrec[t]} : t \in S}

Init ==
  /\ files = <<[recs |-> <<>>, woff |-> 0, created |-> TRUE]>>
  /\ active = 1 /\ cur = Idle /\ ntx = 0
  /\ nrec = [t \in Tx |-> 0] /\ ids = [t \in Tx |-> t]
  /\ returned = {} /\ failed = {} /\ mem = {} /\ down = "no" /\ rec = [st |-> "none", s |-> {}]

Running == down = "no"

\* Tx.Commit is entered with n pending records ------------------------------
BeginCommit ==
  /\ Running /\ cur = Idle /\ ntx < MaxTx
  /\ \E n \in 1..MaxRecs :
       LET t == ntx + 1 IN
       /\ nrec' = [nrec EXCEPT ![t] = n]
       /\ \E id \in {t} \cup (IF "DupIds" \in Sw /\ t > 1 /\ (t - 1) \in failed THEN {ids[t - 1]} ELSE {}) :
            /\ ids' = [ids EXCEPT ![t] = id]
            /\ cur' = [t |-> t, n |-> n, next |-> 1, id |-> id, unsynced |-> FALSE]
       /\ ntx' = t
  /\ UNCHANGED <<files, active, returned, failed, mem, down, rec>>

Active == files[active]
Full == Active.woff >= Cap
Writing == Running /\ cur # Idle /\ cur.next <= cur.n

\* rotateActiveFile: create the next file, then give up the current one ------
RotateBody ==
  /\ Writing /\ ~cur.unsynced
  /\ files' = Append(files, NewFile)
  /\ active' = Len(files) + 1
  /\ UNCHANGED <<cur, ntx, nrec, ids, returned, failed, mem, down, rec>>
Rotate == Full /\ RotateBody

\* ActiveFile.WriteAt(entry.Encode(), writeOff) ------------------------------
Put(f, c) == [f EXCEPT !.recs = SubSeq(f.recs, 1, f.woff) \o <<c>>]
WriteBody ==
  /\ Writing /\ ~cur.unsynced
  /\ LET c == Chunk(cur.t, cur.next, FALSE) IN
     /\ files' = [files EXCEPT ![active] = IF SyncOn THEN Put(@, c) ELSE [Put(@, c) EXCEPT !.woff = @ + 1]]
     /\ cur' = IF SyncOn THEN [cur EXCEPT !.unsynced = TRUE] ELSE [cur EXCEPT !.next = @ + 1]
     /\ mem' = IF "IndexDuringWrite" \in Sw THEN mem \cup {<<cur.t, cur.next>>} ELSE mem
  /\ UNCHANGED <<active, ntx, nrec, ids, returned, failed, down, rec>>
WriteRec == ~Full /\ WriteBody

\* rwManager.Sync() after the record just written (SyncEnable) ---------------
MarkSynced(f) == [f EXCEPT !.recs = [k \in 1..Len(f.recs) |-> [f.recs[k] EXCEPT !.synced = TRUE]], !.created = TRUE]
SyncRec ==
  /\ Running /\ cur # Idle /\ cur.unsynced
  /\ files' = [files EXCEPT ![active] =
                 IF "SyncOncePerTx" \in Sw /\ cur.next < cur.n
                 THEN [@ EXCEPT !.woff = @ + 1]                      \* no Sync call for this record
                 ELSE [MarkSynced(@) EXCEPT !.woff = @ + 1]]
  /\ cur' = [cur EXCEPT !.next = @ + 1, !.unsynced = FALSE]
  /\ UNCHANGED <<active, ntx, nrec, ids, returned, failed, mem, down, rec>>

\* every record written: update the indexes, unlock, return nil --------------
CommitReturn ==
  /\ Running /\ cur # Idle /\ cur.next > cur.n /\ ~cur.unsynced
  /\ returned' = returned \cup {cur.t}
  /\ mem' = mem \cup AllRecs({cur.t})
  /\ cur' = Idle
  /\ UNCHANGED <<files, active, ntx, nrec, ids, failed, down, rec>>

\* an I/O error: Commit returns it, the caller rolls back --------------------
Fail == /\ failed' = failed \cup {cur.t} /\ cur' = Idle
FaultWriteBody ==
  /\ Writing /\ ~cur.unsynced
  /\ \/ UNCHANGED files
     \/ files' = [files EXCEPT ![active] = Put(@, Chunk(cur.t, cur.next, TRUE))]
  /\ Fail
  /\ UNCHANGED <<active, ntx, nrec, ids, returned, mem, down, rec>>
\* the write of the next record fails, nothing or a torn prefix reaches the file
FaultWrite == ~Full /\ FaultWriteBody
FaultSync ==     \* the Sync after a completely written record fails: the record stays, uncounted
  /\ Running /\ cur # Idle /\ cur.unsynced
  /\ cur.next < cur.n \/ "SyncFaultOnMark" \in Sw
  /\ Fail
  /\ UNCHANGED <<files, active, ntx, nrec, ids, returned, mem, down, rec>>
FaultRotateBody ==
  /\ Writing /\ ~cur.unsynced
  /\ Fail
  /\ UNCHANGED <<files, active, ntx, nrec, ids, returned, mem, down, rec>>
\* the next data file cannot be created: nothing changes
FaultRotate == Full /\ FaultRotateBody

\* the process dies; file contents stay; a write in progress may be torn -----
Crash ==
  /\ Running
  /\ \/ UNCHANGED files
     \/ /\ Writing /\ ~Full /\ ~cur.unsynced
        /\ files' = [files EXCEPT ![active] = Put(@, Chunk(cur.t, cur.next, TRUE))]
  /\ down' = "crash"
  /\ UNCHANGED <<active, cur, ntx, nrec, ids, returned, failed, mem, rec>>

\* power is lost: per file, the unsynced chunks after the synced prefix are
\* cut at some point (the first lost one possibly torn); a file whose
\* creation was never made durable may vanish
SyncedPrefix(f) == LET S == {k \in 0..Len(f.recs) : \A j \in 1..k : f.recs[j].synced} IN CHOOSE k \in S : \A j \in S : j <= k
Cuts(f) ==
  LET p == SyncedPrefix(f) IN
  {[f EXCEPT !.recs = SubSeq(f.recs, 1, k)] : k \in p..Len(f.recs)}
  \cup {[f EXCEPT !.recs = SubSeq(f.recs, 1, k) \o <<[f.recs[k + 1] EXCEPT !.torn = TRUE]>>] : k \in p..(Len(f.recs) - 1)}
  \cup (IF f.created THEN {} ELSE {[f EXCEPT !.recs = <<>>]})
PowerLoss ==
  /\ Running /\ SyncOn
  /\ files' \in {g \in [1..Len(files) -> UNION {Cuts(files[k]) : k \in 1..Len(files)}] : \A k \in 1..Len(files) : g[k] \in Cuts(files[k])}
  /\ down' = "power"
  /\ UNCHANGED <<active, cur, ntx, nrec, ids, returned, failed, mem, rec>>

\* DB.Open on what is left ---------------------------------------------------
Readable(f) == LET T == {k \in 1..Len(f.recs) : f.recs[k].torn} IN
               IF T = {} THEN f.recs ELSE SubSeq(f.recs, 1, (CHOOSE k \in T : \A j \in T : k <= j) - 1)
Chunks == UNION {{Readable(files[k])[j] : j \in 1..Len(Readable(files[k]))} : k \in 1..Len(files)}
HasTorn == \E k \in 1..Len(files) : \E j \in 1..Len(files[k].recs) : files[k].recs[j].torn
Recover ==
  /\ down # "no" /\ rec.st = "none"
  /\ rec' = IF "TornTailAborts" \in Sw /\ HasTorn THEN [st |-> "fail", s |-> {}]
            ELSE LET okIds == {c.id : c \in {x \in Chunks : x.last}} IN
                 [st |-> "ok", s |-> {<<c.t, c.i>> : c \in {x \in Chunks : x.id \in okIds}}]
  /\ UNCHANGED <<files, active, cur, ntx, nrec, ids, returned, failed, mem, down>>

Next == BeginCommit \/ Rotate \/ WriteRec \/ SyncRec \/ CommitReturn
        \/ FaultWrite \/ FaultSync \/ FaultRotate \/ Crash \/ PowerLoss \/ Recover
Spec == Init /\ [][Next]_vars

-----------------------------------------------------------------------------
InFlight == IF cur = Idle THEN {} ELSE {cur.t}
Admissible == {AllRecs(returned)} \cup {AllRecs(returned \cup InFlight)}

\* C09: recovery never fails on what the library (or a crash) left behind
RecoverTotal == rec.st # "fail"
\* C10: after a process crash exactly the returned transactions, plus possibly
\* the in-flight one in full
CrashAtomic == (down = "crash" /\ rec.st = "ok") => rec.s \in Admissible
\* C11: the same after a power loss, given SyncEnable
Durable == (down = "power" /\ rec.st = "ok") => rec.s \in Admissible
\* C12: while no commit is in progress the process serves exactly the returned
\* transactions, and so would a reopen (checked on the files as they are)
FaultAtomic ==
  (Running /\ cur = Idle) =>
     /\ mem = AllRecs(returned)
     /\ LET okIds == {c.id : c \in {x \in Chunks : x.last}} IN
        {<<c.t, c.i>> : c \in {x \in Chunks : x.id \in okIds}} = AllRecs(returned)
\* distinct transactions have distinct stored ids
TxIdUnique == \A a, b \in 1..ntx : a # b => ids[a] # ids[b]
TypeOK == active \in 1..Len(files) /\ down \in {"no", "crash", "power"}
=============================================================================
