------------------------------- MODULE Bytes -------------------------------
(* Byte strings as sequences of naturals, with the ordering bytes.Compare   *)
(* implements.  TLA+ strings have no order, so every value whose order      *)
(* matters (KV keys, prefixes, sorted-set member keys) is a byte sequence.  *)
EXTENDS Naturals, Sequences, FiniteSets, SequencesExt

RECURSIVE LexLess(_, _)
LexLess(a, b) ==
  IF a = <<>> THEN b # <<>>
  ELSE IF b = <<>> THEN FALSE
  ELSE IF a[1] # b[1] THEN a[1] < b[1]
  ELSE LexLess(Tail(a), Tail(b))

LexLeq(a, b) == a = b \/ LexLess(a, b)

IsPrefixOf(p, k) == Len(p) <= Len(k) /\ SubSeq(k, 1, Len(p)) = p

\* The remainder of k after prefix p.
StripPrefix(p, k) == SubSeq(k, Len(p) + 1, Len(k))

\* Ascending sequence of a finite set of byte strings.
SortBytes(S) == SetToSortSeq(S, LexLess)

SeqToSet(s) == {s[i] : i \in 1..Len(s)}

\* drop the first n elements / keep at most n elements
Drop(s, n) == IF n >= Len(s) THEN <<>> ELSE SubSeq(s, n + 1, Len(s))
Take(s, n) == IF n >= Len(s) THEN s ELSE SubSeq(s, 1, n)


IsPrefixSeq(s, t) == Len(s) <= Len(t) /\ SubSeq(t, 1, Len(s)) = s
=============================================================================
