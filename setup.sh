#!/bin/sh
# Build the verification harness from files on disk only (offline).
set -e
cd "$(dirname "$0")"
exec python3 orch/setup.py
